#!/bin/bash
# Verify a seeded change independently and run our checks against it, all in a scratch copy.
#   tools/seedcheck.sh <seed-dir (with patch.diff and demo/)> <demo crate> <demo features or -> <property> [<property>...]
set -u
SD="$1"; CRATE="$2"; FEAT="$3"; shift 3
S="${ZKSEED_DIR:-/tmp/zkseed}"
mkdir -p $S
rsync -a --delete --exclude target --exclude .git /repo/ $S/repo/
cd $S/repo
echo "== apply patch"; git apply --verbose "$SD/patch.diff" 2>&1 | tail -3 || { echo "PATCH FAILED"; exit 3; }
export CARGO_TARGET_DIR=$S/repo-target CARGO_NET_OFFLINE=true
if [ -z "${SEEDCHECK_ONLY_OURS:-}" ]; then
echo "== repo tests with the change"
cargo test --workspace --no-fail-fast --offline 2>&1 | grep -E "^test result|^error" | awk '{p+=$4; f+=$6} END {print "passed="p" failed="f}'
FF=""; [ "$FEAT" != "-" ] && FF="--features $FEAT"
mkdir -p $S/repo/$CRATE/tests; for f in "$SD"/demo/*.rs; do cp "$f" $S/repo/$CRATE/tests/; done
echo "== demo with the change (expected to FAIL)"
cargo test -p $CRATE $FF --offline --test seed_demo 2>&1 | grep -E "^test result|^error|panicked" | head -5
echo "== demo without the change (expected to PASS)"
git apply -R "$SD/patch.diff"
cargo test -p $CRATE $FF --offline --test seed_demo 2>&1 | grep -E "^test result|^error" | head -5
git apply "$SD/patch.diff"
rm -f $S/repo/$CRATE/tests/seed_demo.rs
fi
unset CARGO_TARGET_DIR
cd /verif
for P in "$@"; do
  echo "== our check $P quick against the change"
  ZKVERIF_REPO=$S/repo ZKVERIF_OUT=$S/out ZKVERIF_TARGET=$S/zkverif-target ./check $P quick 2>&1 | grep -v "^proptest: Abort" | grep -E "^(VIOLATION|OK|INCONCLUSIVE|  check=)" | head -8
done
