#!/bin/bash
# Re-run the detecting check of every saved seeded change under another VERIF_SEED (detection must not
# hinge on one PRNG stream).   tools/seedsweep.sh <VERIF_SEED> [seed-dir-name ...]
set -u
VS="${1:-7}"; shift || true
cd "$(dirname "$0")/.."
S="${ZKSEED_DIR:-/tmp/zkseed}"
mkdir -p $S
DIRS="$@"; [ -z "$DIRS" ] && DIRS=$(ls seeded)
for d in $DIRS; do
  P=$(python3 -c "import json;m=json.load(open('seeded/$d/meta.json'));ks=list(m['detected_by'].keys());p=m['property'];print(p if p in ks else ks[0])")
  rsync -a --delete --exclude target --exclude .git /repo/ $S/repo/
  (cd $S/repo && git apply /verif/seeded/$d/patch.diff) || { echo "$d PATCH-FAILED"; continue; }
  out=$(VERIF_SEED=$VS ZKVERIF_REPO=$S/repo ZKVERIF_OUT=$S/out ZKVERIF_TARGET=$S/zkverif-target ./check $P quick 2>&1 | grep -E "^(VIOLATION|OK|INCONCLUSIVE)" | head -1 | cut -c1-60)
  echo "$d $P seed=$VS :: $out"
done
