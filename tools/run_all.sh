#!/bin/bash
# Run every property's quick (or $2) check once with VERIF_SEED=$1 and print one line per property.
SEED="${1:-1}"; TIER="${2:-quick}"
cd "$(dirname "$0")/.."
for p in $(./harness/target/release/zkverif list); do
  s=$(date +%s)
  out=$(VERIF_SEED=$SEED ./check $p $TIER 2>/dev/null | grep -E "^(OK|VIOLATION|INCONCLUSIVE|KNOWN-FINDING|  check=)" | head -6)
  rc=$?
  e=$(date +%s)
  echo "seed=$SEED $p $((e-s))s :: $(echo "$out" | tr '\n' ' ')"
done
