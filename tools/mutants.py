#!/usr/bin/env python3
"""Sensitivity protocol (DESIGN.md section 7): apply each seeded change to a scratch copy of /repo,
run the quick check of the property it targets (and optionally the repository's own tests), and
write the kill table to /verif/SENSITIVITY.md.

  tools/mutants.py [--tests] [--only id,id] [--tier quick|thorough] [--out FILE]

Scratch copy: /tmp/zkmut/repo (removed at the end unless --keep)."""
import json, os, re, shutil, subprocess, sys, time

SCRATCH = "/tmp/zkmut"
REPO = SCRATCH + "/repo"
ZC = "zkchannels-crypto/src/"
ZA = "zkabacus-crypto/src/"

# (id, properties expected to catch it, file, [(old, new), ...], note)
M = [
 ("m01a-drop-merchant-balances-match", ["C01"], ZA+"proofs.rs", [("                && customer_balances_match\n                && merchant_balances_match,", "                && customer_balances_match,")], "conjunct dropped from EstablishProof::verify"),
 ("m01b-revlocks-self-compare", ["C01"], ZA+"proofs.rs", [("let revlocks_match = state_response_scalars[2] == close_state_response_scalars[2];", "let revlocks_match = state_response_scalars[2] == state_response_scalars[2];")], "lock equality compares a slot with itself"),
 ("m01c-close-tag-unchecked", ["C01"], ZA+"proofs.rs", [("        let close_tag_matches = close_state_response_scalars[1] == expected_close_tag;", "        let close_tag_matches = close_state_response_scalars[1] == expected_close_tag || true;")], "close tag equation of the establish proof ignored"),
 ("m01d-customer-balance-close-side-unchecked", ["C01"], ZA+"proofs.rs", [("        let customer_balances_match = state_response_scalars[3] == expected_customer_balance\n            && close_state_response_scalars[3] == expected_customer_balance;", "        let customer_balances_match = state_response_scalars[3] == expected_customer_balance;")], "close-state customer balance not tied to the public value"),
 ("m01e-establish-outputs-swapped", ["C01", "C03", "C04"], ZA+"proofs.rs", [("            (Some(verified_state), Some(verified_close_state), true) => Some((\n                VerifiedBlindedState(verified_state),\n                VerifiedBlindedCloseState(verified_close_state),\n            )),\n            _ => None,\n        }\n    }\n}\n\n/// Collects the information a merchant needs to verify a [`EstablishProof`].", "            (Some(verified_state), Some(verified_close_state), true) => Some((\n                VerifiedBlindedState(verified_close_state),\n                VerifiedBlindedCloseState(verified_state),\n            )),\n            _ => None,\n        }\n    }\n}\n\n/// Collects the information a merchant needs to verify a [`EstablishProof`].")], "state commitment signed as close state"),
 ("m01f-one-revealed-scalar-unhashed", ["C01", "C12"], ZA+"proofs.rs", [("            .with(&close_state_proof_builder.conjunction_commitment_scalars()[3])\n", ""), ("            .with(&self.customer_balance_commitment_scalar)\n", "")], "partial revert of the Fiat-Shamir repair (one scalar, both sides)"),
 ("m02a-drop-nonce-equation", ["C02"], ZA+"proofs.rs", [("                && pay_token_nonce_matches_expected\n", "")], ""),
 ("m02b-drop-merchant-range", ["C02"], ZA+"proofs.rs", [("                && merchant_balance_proof_verifies\n", "")], ""),
 ("m02c-drop-merchant-update", ["C02"], ZA+"proofs.rs", [("                && customer_balance_properly_updated\n                && merchant_balance_properly_updated,", "                && customer_balance_properly_updated,")], ""),
 ("m02d-drop-old-revlocks", ["C02"], ZA+"proofs.rs", [("                && old_revlocks_match\n", "")], ""),
 ("m02e-drop-new-revlocks", ["C02"], ZA+"proofs.rs", [("                && new_revlocks_match\n", "")], ""),
 ("m02f-drop-channel-ids", ["C02"], ZA+"proofs.rs", [("                && channel_ids_match\n                && close_tag_matches\n                && old_revlocks_match", "                && close_tag_matches\n                && old_revlocks_match")], ""),
 ("m02g-drop-token-proof", ["C02"], ZA+"proofs.rs", [("            old_pay_token_proof_verifies\n                && old_revlock_proof_verifies", "            old_revlock_proof_verifies")], "pay-token proof not verified"),
 ("m02h-lock-proof-unhashed", ["C02", "C12"], ZA+"proofs.rs", [("            .with(&old_revocation_lock_proof_builder)\n", ""), ("            .with(&self.old_revocation_lock_proof)\n", "")], "sub-proof removed from both challenges"),
 ("m02i-drop-close-tag-pay", ["C02"], ZA+"proofs.rs", [("                && channel_ids_match\n                && close_tag_matches\n                && old_revlocks_match", "                && channel_ids_match\n                && old_revlocks_match")], "close tag of the pay proof unchecked"),
 ("m02j-drop-customer-range", ["C02"], ZA+"proofs.rs", [("                && customer_balance_proof_verifies\n", "")], ""),
 ("m03a-started-close-on-new-state", ["C03"], ZA+"customer.rs", [("            self.old_close_state_signature,\n            self.old_state.close_state(),", "            self.old_close_state_signature,\n            self.new_state.close_state(),")], ""),
 ("m03b-pay-token-verify-always-true", ["C03"], ZA+"states.rs", [("        self.0\n            .verify(param.merchant_public_key(), &state.to_message())\n            .into()\n    }\n}\n\n#[cfg(feature = \"verif-hooks\")]", "        let _ = self.0.verify(param.merchant_public_key(), &state.to_message());\n        Verification::Verified\n    }\n}\n\n#[cfg(feature = \"verif-hooks\")]")], "customer accepts any pay token"),
 ("m03c-close-sig-verify-skips-balance", ["C03", "C06"], ZA+"states.rs", [("            self.revocation_lock.to_scalar(),\n            self.customer_balance.to_scalar(),\n            self.merchant_balance.to_scalar(),\n        ])\n    }\n\n    /// Get the [`ChannelId`] for this [`CloseState`].", "            self.revocation_lock.to_scalar(),\n            self.customer_balance.to_scalar(),\n            self.customer_balance.to_scalar(),\n        ])\n    }\n\n    /// Get the [`ChannelId`] for this [`CloseState`].")], "close-state message repeats the customer balance"),
 ("m04a-apply-in-64-bit", ["C04", "C17"], ZA+"states.rs", [("        let new_value = self.0 .0 as i128 - amt.0 as i128;", "        let new_value = (self.0 .0 as i64 - amt.0) as i128;")], ""),
 ("m04c-started-reports-new-balance", ["C04"], ZA+"customer.rs", [("    pub fn customer_balance(&self) -> CustomerBalance {\n        self.old_state.customer_balance()", "    pub fn customer_balance(&self) -> CustomerBalance {\n        self.new_state.customer_balance()")], ""),
 ("m05a-revocation-opening-unchecked", ["C05"], ZA+"revlock.rs", [("                &Message::from(revocation_pair.lock.to_scalar()),\n            )\n            .into()", "                &Message::from(revocation_pair.lock.to_scalar()),\n            )\n            .then(|| ())\n            .map_or(Verification::Verified, |_| Verification::Verified)")], "complete_payment accepts any pair"),
 ("m05b-pair-lock-comparison-dropped", ["C05", "C15"], ZA+"revlock.rs", [("        if unchecked.lock == valid_pair.lock {", "        if unchecked.lock == valid_pair.lock || true {")], ""),
 ("m05c-bf-ignored-for-zero-lock", ["C05"], ZA+"revlock.rs", [("                revocation_lock_blinding_factor.0,\n", "                revocation_lock_blinding_factor.0,\n"), ("        self.0\n            .verify_opening(", "        let _unused = 0;\n        self.0\n            .verify_opening(")], "no-op control (equivalent): must stay silent"),
 ("m06a-context-unhashed-establish", ["C06", "C12"], ZA+"proofs.rs", [("            .with_bytes(&context.as_bytes())\n", ""), ("            // Incorporate transcript context.\n            .with_bytes(context.as_bytes())\n", "            // Incorporate transcript context.\n")], "context dropped from both establish challenges"),
 ("m07b-verify-ignores-coordinates-beyond-5", ["C07"], ZC+"pointcheval_sanders.rs", [("                .zip(msg.iter())\n                .map(|(yi, mi)| yi * mi)", "                .zip(msg.iter())\n                .take(5)\n                .map(|(yi, mi)| yi * mi)")], "tests only use N=3"),
 ("m07c-well-formed-skipped-for-large-n", ["C07", "C03"], ZC+"pointcheval_sanders.rs", [("        if !self.is_well_formed() {\n            return false;\n        }", "        if !self.is_well_formed() && N <= 3 {\n            return false;\n        }")], "identity signature accepted for N>3"),
 ("m08a-request-unverified-for-large-n", ["C08", "C11"], ZC+"proofs/signaturerequest.rs", [("            .verify_knowledge_of_opening(&params.to_pedersen_parameters(), challenge)\n            .then(", "            .verify_knowledge_of_opening(&params.to_pedersen_parameters(), challenge)\n            .max(N > 5)\n            .then(")], "blind-signable value without a valid proof for N>5"),
 ("m09a-inner-product-truncated", ["C09", "C07"], ZC+"lib.rs", [("        ts.iter().zip(us.iter()).map(|(&t, u)| t * u).sum::<X>()", "        ts.iter().zip(us.iter()).take(5).map(|(&t, u)| t * u).sum::<X>()")], "coordinates beyond 5 ignored"),
 ("m10b-caller-scalar-ignored-last-slot", ["C10"], ZC+"proofs/commitment.rs", [("                .iter()\n                .map(|&maybe_scalar| maybe_scalar.unwrap_or_else(|| Scalar::random(&mut *rng)))", "                .iter()\n                .enumerate()\n                .map(|(i, &maybe_scalar)| maybe_scalar.filter(|_| i < 5).unwrap_or_else(|| Scalar::random(&mut *rng)))")], "caller-chosen commitment scalar ignored beyond slot 5"),
 ("m11a-signature-proof-well-formedness-dropped", ["C11"], ZC+"proofs/signature.rs", [("        valid_signature && valid_commitment_proof && commitment_proof_matches_signature", "        valid_commitment_proof && commitment_proof_matches_signature")], ""),
 ("m12a-signature-sigma2-unhashed", ["C12"], ZC+"pointcheval_sanders.rs", [("        builder.consume(&self.sigma1);\n        builder.consume(&self.sigma2);", "        builder.consume(&self.sigma1);")], ""),
 ("m12b-range-parameters-hash-only-key", ["C12"], ZC+"proofs/range.rs", [("        for digit_signature in self.digit_signatures.iter() {\n            builder.consume(digit_signature);\n        }\n        builder.consume(&self.public_key);", "        builder.consume(&self.public_key);")], ""),
 ("m12c-public-key-x2-unhashed", ["C12"], ZC+"pointcheval_sanders.rs", [("        builder.consume_bytes(self.x2.to_bytes());\n\n        for y1", "\n        for y1")], ""),
 ("m12e-scalar-commitment-unhashed", ["C12", "C01", "C02"], ZC+"proofs/commitment.rs", [("        builder.consume(&self.commitment());\n        builder.consume(&self.scalar_commitment());\n    }\n}\n\n/// A partially-built", "        builder.consume(&self.commitment());\n    }\n}\n\n/// A partially-built"), ("        builder.consume(&self.commitment());\n        builder.consume(&self.scalar_commitment());\n    }\n}\n\n#[cfg(test)]", "        builder.consume(&self.commitment());\n    }\n}\n\n#[cfg(test)]")], "T removed from both ChallengeInput impls"),
 ("m13b-range-digits-unchecked", ["C13", "C02"], ZC+"proofs/range.rs", [("        valid_digits && response_scalar == expected_response_scalar", "        let _ = valid_digits;\n        response_scalar == expected_response_scalar")], ""),
 ("m13c-ten-digits", ["C13"], ZC+"proofs/range.rs", [("const RP_PARAMETER_L: usize = 9;", "const RP_PARAMETER_L: usize = 10;")], "range becomes [0, 2^70)"),
 ("m13d-validate-skips-digit-0", ["C13"], ZC+"proofs/range.rs", [("        for (i, sig) in self.digit_signatures.iter().enumerate() {", "        for (i, sig) in self.digit_signatures.iter().enumerate().skip(1) {")], ""),
 ("m13e-validate-skips-last-digit", ["C13"], ZC+"proofs/range.rs", [("        for (i, sig) in self.digit_signatures.iter().enumerate() {", "        for (i, sig) in self.digit_signatures.iter().enumerate().take(127) {")], ""),
 ("m14a-proof-signature-not-rerandomized", ["C14"], ZC+"pointcheval_sanders.rs", [("        blinded_signature.randomize(rng);\n        BlindedSignature(blinded_signature)", "        let _ = rng;\n        BlindedSignature(blinded_signature)")], "sigma1' equals the sigma1 the merchant issued"),
 ("m14b-closing-signature-not-randomized", ["C14"], ZA+"customer.rs", [("        close_signature.randomize(&mut *rng);\n", "        let _ = &rng;\n")], ""),
 ("m14c-nonce-reused-across-payments", ["C14"], ZA+"states.rs", [("            channel_id: self.channel_id,\n            nonce: Nonce::new(rng),\n            revocation_pair: RevocationPair::new(rng),\n            customer_balance: self.customer_balance.apply(amt)?,", "            channel_id: self.channel_id,\n            nonce: self.nonce,\n            revocation_pair: RevocationPair::new(rng),\n            customer_balance: self.customer_balance.apply(amt)?,")], ""),
 ("m15a-last-key-element-identity-unchecked", ["C15"], ZC+"pointcheval_sanders.rs", [("        for (y1, y2) in y1s.iter().zip(y2s.iter()) {", "        for (y1, y2) in y1s.iter().zip(y2s.iter()).take(N - 1) {")], ""),
 ("m15b-secret-ys-zero-unchecked", ["C15"], ZC+"pointcheval_sanders.rs", [("        for y in ys.iter() {\n            if y.is_zero() {", "        for y in ys.iter().take(0) {\n            if y.is_zero() {")], ""),
 ("m15c-nonce-close-tag-decodes", ["C15", "C18"], ZA+"nonce.rs", [("        if n != CLOSE_SCALAR {", "        if n != CLOSE_SCALAR || true {")], ""),
 ("m15d-signature-identity-decodes", ["C15"], ZC+"pointcheval_sanders.rs", [("        if bool::from(sigma1.is_identity()) {\n            return Err(\n                \"The first element of a signature", "        if bool::from(sigma1.is_identity()) && false {\n            return Err(\n                \"The first element of a signature")], ""),
 ("m15e-g1-subgroup-unchecked", ["C15"], ZC+"serde.rs", [("            G1Affine::from_compressed(&serde_big_array::BigArray::deserialize(deserializer)?)", "            G1Affine::from_compressed_unchecked(&serde_big_array::BigArray::deserialize(deserializer)?)")], ""),
 ("m16a-array-push-panics-again", ["C16"], ZC+"serde.rs", [("                    elems\n                        .try_push(elem.0)\n                        .map_err(|_| de::Error::custom(\"wrong number of elements for array\"))?;", "                    elems.push(elem.0);")], "revert of the repair"),
 ("m16b-vec-prealloc-uncapped", ["C16"], ZC+"serde.rs", [("seq.size_hint().unwrap_or(0).min(max_prealloc)", "seq.size_hint().unwrap_or(0).max(max_prealloc.min(0))")], "revert of the repair"),
 ("m17c-abs-overflow-again", ["C17"], ZA+"lib.rs", [("self.0.unsigned_abs()", "self.0.abs() as u64")], "revert of the repair"),
 ("m17e-balance-decode-bound-dropped", ["C15", "C17"], ZA+"lib.rs", [("    fn try_from(value: u64) -> Result<Self, Self::Error> {\n        Self::try_new(value)", "    fn try_from(value: u64) -> Result<Self, Self::Error> {\n        Ok(Self(value))")], "revert of the repair"),
 ("m18a-nonce-generation-without-retry", ["C18"], ZA+"nonce.rs", [("        loop {\n            if let Ok(n) = Nonce::try_from(UncheckedNonce(Scalar::random(&mut *rng))) {\n                return n;\n            }\n        }", "        Nonce(Scalar::random(&mut *rng))")], ""),
 ("m18c-channel-id-ignores-customer-info", ["C18"], ZA+"states.rs", [("        hasher.update(customer_account_info);\n", "        let _ = customer_account_info;\n")], ""),
 ("m18d-channel-id-ignores-customer-randomness", ["C18"], ZA+"states.rs", [("        hasher.update(&customer_randomness.0);\n", "        let _ = &customer_randomness;\n")], ""),
 ("m19a-secret-scalar-retry-removed", ["C19"], ZC+"pointcheval_sanders.rs", [("        let mut get_nonzero_scalar = || loop {\n            let r = Scalar::random(&mut *rng);\n            if !r.is_zero() {\n                return r;\n            }\n        };", "        let mut get_nonzero_scalar = || Scalar::random(&mut *rng);")], ""),
 ("m19d-random-non-identity-loop-removed", [], ZC+"lib.rs", [("        loop {\n            let g = G::random(&mut *rng);\n            if !bool::from(g.is_identity()) {\n                return g;\n            }\n        }", "        G::random(&mut *rng)")], "EQUIVALENT mutant (G::random never returns the identity in bls12_381 0.4): every check must stay silent"),
 ("m20a-revocation-index-not-stored", ["C20", "C15"], ZA+"revlock.rs", [("struct UncheckedRevocationSecret {\n    #[serde(with = \"SerializeElement\")]\n    secret: Scalar,\n    index: u8,", "struct UncheckedRevocationSecret {\n    #[serde(with = \"SerializeElement\")]\n    secret: Scalar,\n    #[serde(skip_deserializing)]\n    index: u8,")], "stored states with index>0 do not restore"),
 ("m20b-max-balance-does-not-restore", ["C20", "C15"], ZA+"lib.rs", [("    fn try_from(value: u64) -> Result<Self, Self::Error> {\n        Self::try_new(value)", "    fn try_from(value: u64) -> Result<Self, Self::Error> {\n        Self::try_new(value.saturating_add(1)).map(|_| Self(value))")], "decode-time check excludes 2^63-1"),
]

def sh(cmd, **kw):
    return subprocess.run(cmd, shell=True, capture_output=True, text=True, **kw)

def main():
    args = sys.argv[1:]
    tests = "--tests" in args
    keep = "--keep" in args
    tier = "quick"
    only = None
    out = "/verif/SENSITIVITY.md"
    for i, a in enumerate(args):
        if a == "--only": only = args[i+1].split(",")
        if a == "--tier": tier = args[i+1]
        if a == "--out": out = args[i+1]
    os.makedirs(SCRATCH, exist_ok=True)
    rows = []
    env = dict(os.environ, ZKVERIF_REPO=REPO, ZKVERIF_OUT=SCRATCH + "/out", ZKVERIF_TARGET=SCRATCH + "/zkverif-target", CARGO_NET_OFFLINE="true")
    for mid, props, path, reps, note in M:
        if only and not any(mid.startswith(o) for o in only): continue
        sh("rsync -a --delete --exclude target --exclude .git /repo/ %s/" % REPO)
        src = open(os.path.join(REPO, path)).read()
        ok = True
        for old, new in reps:
            if src.count(old) < 1:
                ok = False
                break
            src = src.replace(old, new, 1)
        if not ok:
            rows.append((mid, props, "PATCH-DOES-NOT-APPLY", "", "", note))
            print(mid, "patch does not apply", flush=True)
            continue
        open(os.path.join(REPO, path), "w").write(src)
        t_res = ""
        if tests:
            r = sh("cd %s && CARGO_TARGET_DIR=%s/repo-target cargo test --workspace --no-fail-fast --offline 2>&1 | grep -E '^test result|error(\\[|:)' " % (REPO, SCRATCH))
            failed = sum(int(x) for x in re.findall(r"(\d+) failed", r.stdout))
            passed = sum(int(x) for x in re.findall(r"(\d+) passed", r.stdout))
            t_res = "does not compile" if "error" in r.stdout and passed == 0 else "%d pass / %d fail" % (passed, failed)
        targets = props if props else ["C07", "C09", "C19"]
        res = []
        for p in targets:
            t0 = time.time()
            r = sh("cd /verif && ./check %s %s" % (p, tier), env=env)
            dt = time.time() - t0
            sigs = sorted(set(re.findall(r"signature=(\S+)", r.stdout)))
            if r.returncode == 1: verdict = "KILLED"
            elif r.returncode == 0: verdict = "silent"
            else: verdict = "exit%d" % r.returncode
            detail = ""
            if r.returncode == 2:
                detail = (re.findall(r"INCONCLUSIVE.*", r.stdout) or [""])[0][:160]
            res.append((p, verdict, "%.0fs" % dt, sigs[:2], detail))
            print(mid, p, verdict, "%.0fs" % dt, sigs[:2], detail, t_res, flush=True)
        rows.append((mid, props, res, t_res, "", note))
    with open(out, "w") as f:
        f.write("# Sensitivity of the checks to seeded changes\n\n")
        f.write("Generated by `tools/mutants.py%s` (tier %s). Each change is applied to a scratch copy of /repo; the quick check of every property expected to catch it is run there (`ZKVERIF_REPO`). `KILLED` = exit 1 with a VIOLATION line; `silent` = exit 0; `exit2` = INCONCLUSIVE. Mutants with an empty target list are equivalent mutants that every listed check must leave silent.\n\n" % (" --tests" if tests else "", tier))
        f.write("| change | what | repo tests | check | verdict | time | signature |\n|---|---|---|---|---|---|---|\n")
        for mid, props, res, t_res, _, note in rows:
            if isinstance(res, str):
                f.write("| %s | %s | | | %s | | |\n" % (mid, note, res))
                continue
            for (p, verdict, dt, sigs, detail) in res:
                f.write("| %s | %s | %s | %s | %s | %s | %s |\n" % (mid, note, t_res, p, verdict, dt, "; ".join(sigs) or detail))
    if not keep:
        shutil.rmtree(SCRATCH, ignore_errors=True)

if __name__ == "__main__":
    main()
