#!/usr/bin/env python3
"""Regenerate /verif/MANIFEST.json from the table below (kept in one place so that the manifest
stays valid and in step with the checks that exist)."""
import json, os, subprocess, sys

HERE = os.path.dirname(os.path.dirname(os.path.abspath(__file__)))

# property -> (technique, level text, level note / trusted base, design ref)
CHECKS = {
 "C01": ("algebraic forger over generated (lie, strategy) pairs + proptest; oracle: accepted => forger's known openings satisfy the agreed statement",
         "Refutation search: every single-slot lie x every prover strategy of the forger family (honest-but-lying, cross-slot substitution, per-relation violation, post-challenge choice of each non-response field, mutational tail) is submitted to merchant::Config::initialize; acceptance of any lying attempt is a violation confirmed by unblinding the returned signature. Cannot establish soundness against provers outside the family.",
         "bls12_381 group/pairing arithmetic; challenge-recorder hook reports what ChallengeBuilder hashed; forger control (no lie) must be accepted",
         "5 C01, 4.5"),
 "C02": ("algebraic forger over generated (lie, strategy) pairs on pay proofs; oracle: accepted => known openings satisfy the payment statement; explicit double-spend form",
         "Refutation search over false payment statements (wrong nonce, wrong amount on either balance, out-of-range balance, foreign channel id, replaced close tag, mismatched old/new lock, foreign/tampered token, no token but curve points outside the subgroup) x forger strategies incl. post-challenge choice of non-response fields, against merchant::Config::allow_payment.",
         "bls12_381 arithmetic; challenge-recorder hook; forger control must be accepted",
         "5 C02, 4.5"),
 "C03": ("model-based history generation (proptest) with a fault alphabet on merchant replies; invariant after every step",
         "Generated channel histories with aborts and 0-3 faulty replies before each honest reply; after every step a copy of the customer state must close validly on the ledger's balances with an undisclosed lock; refused replies leave the state image unchanged.",
         "bincode image is a faithful copy of a customer state (validated by C20); independent pairing check of closing signatures",
         "5 C03, 4.4"),
 "C04": ("model-based history generation (proptest) against an i128 ledger reference model",
         "Generated honest histories with boundary-seeking amount selectors; every observable balance and every accept/refuse decision is compared with plain integer arithmetic.",
         "i128 arithmetic of the model",
         "5 C04, 4.4"),
 "C05": ("generated 65-byte strings against a SHA3 reference decoder + directed search for digests next to the scalar modulus + generated histories with wrong revocation candidates",
         "Decode acceptance of revocation pairs equals an independent canonical-hash reference, also on digests sharing the modulus's top byte (19 M hashes searched per quick run) and for pairs generated from such secrets; complete_payment refuses every candidate that does not open the accepted proof's commitment (independent Pedersen evaluation), leaves the pending payment unchanged and then accepts the right pair.",
         "sha3 crate; bls12_381 arithmetic",
         "5 C05"),
 "C06": ("metamorphic single-component substitution over generated honest proofs, sessions and closing messages",
         "Every component of the verification tuple of an accepted establish / pay proof is replaced by fresh and near values (keys and parameter sets also by copies differing in one group element); recorded replies are replayed across sessions/channels/merchants; closing messages get one field substituted: all must be rejected.",
         "SHA3 collision resistance",
         "5 C06"),
 "C07": ("proptest over derivation chains and perturbations; differential against an independent two-pairing evaluation",
         "Signature::verify is compared on every generated case with an independent evaluation of the Pointcheval-Sanders relation from the key's wire atoms, and with the verdict expected by construction; degenerate signatures are reached through a scripted RNG.",
         "bls12_381 pairing and group law",
         "5 C07"),
 "C08": ("proptest over honest, single-atom-tampered and jointly moved signature requests; differential against an independent Schnorr evaluation; generated bare commitments pushed through every conversion trait of the blind-signable type (compile-time probes)",
         "Honest requests must yield the very commitment of the proof as blind-signable value and a signature verifying only on the message; tampered requests must yield none; a request whose commitment and response are moved together is accepted for, and signed as, the other commitment; whatever field is changed, an accepted request hands out the commitment its proof is about; no other route (Deserialize, From, Default) hands out a blind-signable value.",
         "bls12_381 arithmetic; hook commitment_of exposes VerifiedBlindedMessage's commitment",
         "5 C08"),
 "C09": ("proptest; reference model (independent accumulation and scalar-only evaluation with known discrete logs)",
         "Commit / verify_opening compared with the Pedersen map over generators read from the parameter encoding, including constructed collisions that must be accepted and algebraically related wrong openings (negated / scaled whole opening, message, blinding factor, one coordinate).",
         "bls12_381 group law",
         "5 C09"),
 "C10": ("proptest over a scenario grammar of documented constraint patterns; validity predicate on response scalars",
         "Scenarios of 1-3 proofs with every documented pattern built as the documentation prescribes; all verify_* must hold under the proof-derived challenge, which must equal the builder-derived one, and the pattern relations must hold.",
         "documented recipes of zkchannels_crypto::proofs",
         "5 C10"),
 "C11": ("proptest over atom perturbations, simulated transcripts, degenerate-but-valid transcripts (identity elements, zero responses), degenerate signatures and compensating multi-field changes; differential against independent relation evaluators",
         "Verifier verdict == Schnorr / pairing relation evaluated on the wire atoms (each conjunct separately), for accept and reject classes, plus expectation by construction; includes proofs in which the discrepancy of one relation is moved into the other and signature proofs assembled from the public key alone; a change of any field outside the relations must reject too.",
         "bls12_381 pairing and group law",
         "5 C11"),
 "C12": ("exhaustive enumeration of wire atoms per ChallengeInput type (metamorphic: atom change => challenge change) + proptest on byte inputs + zkAbacus atoms through the challenge recorder",
         "Every non-response atom of every ChallengeInput type (all N) is replaced and must change the challenge; builder and proof challenges agree; at the zkAbacus level every non-response atom of establish / pay proofs, every public value and context byte must change the merchant's challenge.",
         "SHA3 collision resistance; challenge-recorder hook",
         "5 C12"),
 "C13": ("boundary enumeration + proptest over honest links, attacker-assembled constraints and parameter substitutions; differential against an independent range-relation evaluator",
         "Prover sign test on the i64 boundary set; honest constraints verify exactly when linked/params/challenge match; constraints assembled from published digit signatures never verify for a linked value outside [0, 2^63) (L and u read from the encodings); validate() == independent per-digit signature check.",
         "bls12_381 pairing and group law",
         "5 C13"),
 "C14": ("model-based multi-channel history generation; invariant over the merchant's view (no exact value reuse, no literal secret)",
         "Necessary condition for unlinkability: no atom of a customer message equals an earlier atom or public element, no group element occurs twice inside one message, and no secret of the customer state occurs in a message; histories include payments that make the hidden balances coincide.",
         "fresh 255-bit values do not collide by chance",
         "5 C14, 8"),
 "C15": ("enumeration of (type, atom, invalid/boundary encoding) + round trips; differential against an independent schema decoder",
         "decode Ok <=> schema decoder (kind validity, true element counts of fixed-size arrays + exactly the listed invariants) accepts; accepted values re-encode to the consumed bytes; honest values of every type round-trip; decoded keys behave identically; channel id text form round-trips.",
         "bls12_381 point/scalar codecs as ground truth for canonical / on-curve / in-subgroup",
         "5 C15"),
 "C16": ("enumerated structural mutations decoded in isolated worker processes under a tracking allocator (crash / allocation monitor); proptest over channel-id strings; libFuzzer campaign in the thorough tier",
         "Every length prefix x boundary values, atoms x invalid table, truncations, extensions, random strings for every Deserialize type: the worker must return Ok/Err - no panic, no death, no single allocation above 64 KiB + 32*len; ChannelId::from_str returns Ok/Err on base64 payloads of every length, padding variants and arbitrary text.",
         "OS process isolation; the allocator wrapper sees every Rust allocation",
         "5 C16, 4.6"),
 "C17": ("exhaustive lattice enumeration + proptest random 64-bit triples against an i128 reference; boundary payments through the protocol",
         "Constructors, apply, try_add and scalar encodings compared with i128 arithmetic on the full boundary lattice (exhaustive) and random values with overflow checks on; merchant called with any decodable amount.",
         "hook returns the same to_scalar/apply the proofs use",
         "5 C17"),
 "C18": ("fault injection through a scripted RNG (close tag forced at nonce draws) + proptest on decoding, cross-presentation and channel-id derivation against a SHA3 reference",
         "No generated or decoded nonce equals the close tag; pay token and closing signature never verify in each other's place; channel id == SHA3 over its five inputs and changes with each.",
         "Scalar::random = from_bytes_wide of 64 drawn bytes (bls12_381 0.4.0); sha3 crate",
         "5 C18"),
 "C19": ("exhaustive enumeration of zero windows over recorded RNG draws (scripted RNG fault injection); algebraic oracle on the encodings",
         "Key / parameter generation under uniform streams and under all-zero windows at every recorded draw (widths 1-3): non-zero secrets, non-identity elements, matching discrete logs, decode-time validation, signatures verify, validate() ok.",
         "bls12_381 arithmetic; draw alignment taken from a recorded first pass",
         "5 C19"),
 "C20": ("model-based history generation with twin execution (state restored from its encoding at every step), randomness steered to rare revocation-pair indices",
         "The restored twin receives the same replies and randomness as the never-stored customer: identical decisions, byte-identical next states and outgoing messages.",
         "identical RNG seeds give identical library behaviour",
         "5 C20"),
}

def main():
    have = subprocess.run([os.path.join(HERE, "harness/target/release/zkverif"), "list"], capture_output=True, text=True).stdout.split()
    props = [json.loads(l) for l in open(os.path.join(HERE, "properties.jsonl"))]
    repo_commits = subprocess.run(["git", "-C", "/repo", "log", "--format=%h %s"], capture_output=True, text=True).stdout.splitlines()
    hook_commits = [c.split()[0] for c in repo_commits if "verif-hooks" in c]
    checks, na = [], []
    for p in props:
        pid = p["id"]
        if pid in have and pid in CHECKS:
            tech, text, note, ref = CHECKS[pid]
            checks.append({
                "property_id": pid,
                "quick_cmd": "./check %s quick" % pid,
                "thorough_cmd": "./check %s thorough" % pid,
                "evidence_file": "/verif/evidence/%s.json" % pid,
                "replay_cmd_template": "./check replay {path}",
                "engine": "zkverif",
                "level_claimed": {"category": "exploration", "text": text, "design_ref": "DESIGN.md section " + ref},
                "level_note": note,
                "technique": tech,
            })
        else:
            na.append({"property_id": pid, "reason": "check not built yet (implementation in progress; see DESIGN.md section 5)"})
    m = {
        "version": 1,
        "setup_cmd": "./check build",
        "hooks": {
            "guard": "cargo feature `verif-hooks` (zkchannels-crypto and zkabacus-crypto; off by default)",
            "enable": "the harness crate /verif/harness depends on both crates by path with features = [\"verif-hooks\"]; ./check rebuilds it from /repo's working tree on every invocation",
            "baseline_off_cmd": "cd /repo && cargo test --workspace --no-fail-fast --offline",
            "source_commits": hook_commits,
            "add_only": True,
        },
        "engines": [
            {"name": "zkverif", "path": "/verif/harness", "serves_properties": [c["property_id"] for c in checks],
             "kind_free_text": "Rust harness: proptest generators (16 fixed shards seeded from VERIF_SEED), enumerated finite sub-domains, model-based history interpreter, scripted RNG, wire-schema tracer, reference evaluators on bls12_381, isolated decode workers"},
        ],
        "checks": checks,
        "notes": "exit 0 = held on everything explored; exit 1 + 'VIOLATION property=<id> replay=<path>' = violation; exit 2 + 'INCONCLUSIVE ...' = build failure / schema drift / vacuous run / watchdog (never a violation). Known findings: /verif/known_findings.txt.",
        "not_applicable": na,
    }
    json.dump(m, open(os.path.join(HERE, "MANIFEST.json"), "w"), indent=1)
    print("checks:", [c["property_id"] for c in checks])
    print("not claimed:", [n["property_id"] for n in na])

if __name__ == "__main__":
    main()
