#!/bin/bash
# Take a sub-agent's delivery (/tmp/seedwt/<ID>.out: patch.diff, seed_demo.rs, notes.json) into
# seeded/<name>/ and run tools/seedcheck.sh on it.   tools/seedadopt.sh <ID> <name> [<property>...]
set -u
ID="$1"; NAME="$2"; shift 2
cd "$(dirname "$0")/.."
OUT=/tmp/seedwt/$ID.out
[ -f $OUT/patch.diff ] || { echo "no delivery in $OUT"; exit 3; }
D=seeded/$NAME
mkdir -p $D/demo
cp $OUT/patch.diff $D/patch.diff
cp $OUT/seed_demo.rs $D/demo/seed_demo.rs
cp $OUT/notes.json $D/author_notes.json
CRATE=$(python3 -c "import json;print(json.load(open('$OUT/notes.json'))['crate'])")
FEAT=$(python3 -c "import json;f=json.load(open('$OUT/notes.json')).get('features','-').strip();print(f.replace('--features','').strip().replace(' ',',') or '-')")
echo "$CRATE/tests/seed_demo.rs (cargo features: $FEAT)" > $D/demo/WHERE.txt
PROPS="$@"; [ -z "$PROPS" ] && PROPS="$ID"
ZKSEED_DIR="${ZKSEED_DIR:-/tmp/zkseed}" tools/seedcheck.sh /verif/$D $CRATE "$FEAT" $PROPS
