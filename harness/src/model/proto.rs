//! Protocol-level helpers: cached merchants, channel ids, copying values through their encoding,
//! the merchant's blind-signing map re-implemented from the key image (for fault construction).

use crate::engine::refmath::{self, PkAtoms, SkAtoms};
use crate::engine::wire::{self, Image};
use crate::props::common::{rand_nonzero_scalar, rng};
use bls12_381::{G1Affine, G1Projective, Scalar};
use group::Curve;
use serde::{de::DeserializeOwned, Serialize};
use std::collections::HashMap;
use std::sync::{Arc, Mutex, OnceLock};
use zkabacus_crypto::{
    customer, merchant, ChannelId, ClosingSignature, Context, CustomerBalance, CustomerRandomness,
    MerchantBalance, MerchantRandomness, PayToken,
};

pub struct Merchant {
    pub seed: u64,
    pub cfg: merchant::Config,
    pub cust: customer::Config,
    pub kimg: Image,
    pub pk: PkAtoms,
    pub sk: SkAtoms,
    pub rev_h: G1Projective,
    pub rev_g: G1Projective,
    pub range_pk: PkAtoms,
    pub range_img: Image,
}

fn build_merchant(seed: u64, cfg: merchant::Config) -> Merchant {
    let (pk, rev, range) = cfg.extract_customer_config_parts();
    let kimg = Image::must(cfg.signing_keypair());
    let rimg = Image::must(&rev);
    let range_img = Image::must(&range);
    Merchant {
        seed,
        pk: PkAtoms::from_image(&kimg, "pk"),
        sk: SkAtoms::from_image(&kimg, "sk"),
        rev_h: rimg.g1("h").into(),
        rev_g: rimg.g1("gs.0").into(),
        range_pk: PkAtoms::from_image(&range_img, "public_key"),
        range_img,
        cust: customer::Config::from_parts(pk, rev, range),
        kimg,
        cfg,
    }
}

/// Merchant number `seed` (cached; deterministic).
pub fn merchant(seed: u64) -> Arc<Merchant> {
    static C: OnceLock<Mutex<HashMap<u64, Arc<Merchant>>>> = OnceLock::new();
    let c = C.get_or_init(|| Mutex::new(HashMap::new()));
    if let Some(m) = c.lock().unwrap().get(&seed) {
        return m.clone();
    }
    let cfg = merchant::Config::new(&mut rng(0x4d45_5243 ^ seed.wrapping_mul(0x100_0193)));
    let m = Arc::new(build_merchant(seed, cfg));
    c.lock().unwrap().insert(seed, m.clone());
    m
}

/// A merchant that shares everything with `base` except the parts selected (for C06):
/// part 0 = signing key, 1 = revocation parameters, 2 = range parameters.
pub fn merchant_variant(base: u64, part: u8) -> Arc<Merchant> {
    static C: OnceLock<Mutex<HashMap<(u64, u8), Arc<Merchant>>>> = OnceLock::new();
    let c = C.get_or_init(|| Mutex::new(HashMap::new()));
    if let Some(m) = c.lock().unwrap().get(&(base, part)) {
        return m.clone();
    }
    let a = merchant(base);
    let b = merchant(base + 1000);
    let kp = |m: &Merchant| copy(m.cfg.signing_keypair());
    let cfg = merchant::Config::from_parts(
        if part == 0 { kp(&b) } else { kp(&a) },
        if part == 1 { b.cfg.revocation_commitment_parameters().clone() } else { a.cfg.revocation_commitment_parameters().clone() },
        if part == 2 { b.cfg.range_constraint_parameters().clone() } else { a.cfg.range_constraint_parameters().clone() },
    );
    let m = Arc::new(build_merchant(base * 10 + part as u64 + 5000, cfg));
    c.lock().unwrap().insert((base, part), m.clone());
    m
}

/// A merchant equal to `base` in everything except ONE group element (moved by a generator):
/// part 0 = an element of the signing public key, 1 = of the revocation-commitment parameters,
/// 2 = of the range parameters' public key. `None` if the library's decoders refuse such a value.
#[cfg(feature = "full")]
pub fn merchant_element_variant(base: u64, part: u8, sel: u64) -> Option<Arc<Merchant>> {
    use crate::engine::wire::Kind;
    use crate::props::c08::{change_atom, AtomChange};
    use crate::props::common::ScSpec;
    fn moved<T: Serialize + DeserializeOwned>(v: &T, prefix: &str, sel: u64) -> Option<(T, String)> {
        let img = Image::must(v);
        let idxs: Vec<usize> = (0..img.atoms.len()).filter(|&i| matches!(img.atoms[i].kind, Kind::G1 | Kind::G2) && img.atoms[i].path.starts_with(prefix)).collect();
        if idxs.is_empty() {
            return None;
        }
        let i = idxs[(sel % idxs.len() as u64) as usize];
        let bytes = change_atom(&img, i, &AtomChange::Shift(ScSpec::One))?;
        wire::dec::<T>(&bytes).ok().map(|t| (t, img.atoms[i].path.clone()))
    }
    static C: OnceLock<Mutex<HashMap<(u64, u8, String), Arc<Merchant>>>> = OnceLock::new();
    let c = C.get_or_init(|| Mutex::new(HashMap::new()));
    let a = merchant(base);
    let mut kp = copy(a.cfg.signing_keypair());
    let mut rev = a.cfg.revocation_commitment_parameters().clone();
    let mut range = a.cfg.range_constraint_parameters().clone();
    let path = match part {
        0 => {
            let (v, p) = moved(&kp, "pk.", sel)?;
            kp = v;
            p
        }
        1 => {
            let (v, p) = moved(&rev, "", sel)?;
            rev = v;
            p
        }
        _ => {
            let (v, p) = moved(&range, "public_key.", sel)?;
            range = v;
            p
        }
    };
    let key = (base, part, path);
    if let Some(m) = c.lock().unwrap().get(&key) {
        return Some(m.clone());
    }
    let m = Arc::new(build_merchant(base * 10 + part as u64 + 7000, merchant::Config::from_parts(kp, rev, range)));
    c.lock().unwrap().insert(key, m.clone());
    Some(m)
}

/// Copy a value through its wire form (customer stages, proofs and blinded signatures are not `Clone`).
pub fn copy<T: Serialize + DeserializeOwned>(v: &T) -> T {
    wire::dec::<T>(&wire::enc(v)).expect("a value the library produced decodes again")
}

pub fn try_copy<T: Serialize + DeserializeOwned>(v: &T) -> Result<T, String> {
    wire::dec::<T>(&wire::enc(v))
}

pub fn channel_id(m: &Merchant, seed: u64) -> ChannelId {
    let mut r = rng(seed ^ 0xc1d);
    let mr = MerchantRandomness::new(&mut r);
    let cr = CustomerRandomness::new(&mut r);
    ChannelId::new(mr, cr, m.cfg.signing_keypair().public_key(), b"merchant-account", &seed.to_le_bytes())
}

pub fn context(seed: u64) -> Context {
    Context::new(&[b"zkverif-context".as_ref(), &seed.to_le_bytes()].concat())
}

pub fn cbal(v: u64) -> CustomerBalance {
    CustomerBalance::try_new(v).expect("balance in range")
}
pub fn mbal(v: u64) -> MerchantBalance {
    MerchantBalance::try_new(v).expect("balance in range")
}

/// The scalar a channel id is encoded as: its 32 bytes read little-endian, reduced mod q.
pub fn cid_scalar(cid: &ChannelId) -> Scalar {
    refmath::scalar_from_le_reduce(&cid.to_bytes())
}

/// The merchant's blind-signing map on a commitment, from the key image: (g1^u, (X1 + C)^u).
pub fn blind_sign_ref(m: &Merchant, c: &G1Projective, u: &Scalar) -> (G1Affine, G1Affine) {
    let s1 = G1Projective::from(m.pk.g1) * *u;
    let s2 = (G1Projective::from(m.sk.x1) + *c) * *u;
    (s1.to_affine(), s2.to_affine())
}

pub fn sig_bytes(s1: &G1Affine, s2: &G1Affine) -> Vec<u8> {
    let mut b = Vec::with_capacity(96);
    b.extend_from_slice(&s1.to_compressed());
    b.extend_from_slice(&s2.to_compressed());
    b
}

pub fn closing_sig_from(s1: &G1Affine, s2: &G1Affine) -> Result<ClosingSignature, String> {
    wire::dec::<ClosingSignature>(&sig_bytes(s1, s2))
}
pub fn pay_token_from(s1: &G1Affine, s2: &G1Affine) -> Result<PayToken, String> {
    wire::dec::<PayToken>(&sig_bytes(s1, s2))
}

pub fn fresh_u(seed: u64) -> Scalar {
    rand_nonzero_scalar(seed ^ 0xb11d)
}

pub fn is_verified(v: zkabacus_crypto::Verification) -> bool {
    matches!(v, zkabacus_crypto::Verification::Verified)
}

/// State message (cid, nonce-or-tag, lock, cb, mb) from a `State` sub-image at `prefix`.
pub fn state_message(img: &Image, prefix: &str, close: bool) -> [Scalar; 5] {
    let p = |f: &str| format!("{}.{}", prefix, f);
    let cid: [u8; 32] = img.get(&p("channel_id")).try_into().unwrap();
    let slot1 = if close { zkabacus_crypto::CLOSE_SCALAR } else { img.scalar(&p("nonce")) };
    let cb = u64::from_le_bytes(img.get(&p("customer_balance")).try_into().unwrap());
    let mb = u64::from_le_bytes(img.get(&p("merchant_balance")).try_into().unwrap());
    [
        refmath::scalar_from_le_reduce(&cid),
        slot1,
        img.scalar(&p("revocation_pair.lock")),
        refmath::u64_scalar(cb),
        refmath::u64_scalar(mb),
    ]
}

// ---- honest protocol runs (no checks; used to reach states for the adversarial checks) ----------

use zkabacus_crypto::customer::{Ready, Requested, StartMessage, Started};
use zkabacus_crypto::PaymentAmount;

pub struct Established {
    pub ready: Ready,
    pub proof_bytes: Vec<u8>,
    pub closing_bytes: Vec<u8>,
    pub token_bytes: Vec<u8>,
    pub requested_bytes: Vec<u8>,
}

/// Honest establishment; None if any step fails (callers treat that as a harness-level problem).
pub fn establish(m: &Merchant, cid: &ChannelId, cb: u64, mb: u64, ctx: &Context, seed: u64) -> Option<Established> {
    let (req, proof) = Requested::new(&mut rng(seed ^ 0xe1), &m.cust, *cid, mbal(mb), cbal(cb), ctx);
    let proof_bytes = wire::enc(&proof);
    let requested_bytes = wire::enc(&req);
    let (closing, vbs) = m.cfg.initialize(&mut rng(seed ^ 0xe2), cid, cbal(cb), mbal(mb), proof, ctx)?;
    let closing_bytes = wire::enc(&closing);
    let inactive = req.complete(closing, &m.cust).ok()?;
    let token = m.cfg.activate(&mut rng(seed ^ 0xe3), vbs);
    let token_bytes = wire::enc(&token);
    let ready = inactive.activate(token, &m.cust).ok()?;
    Some(Established { ready, proof_bytes, closing_bytes, token_bytes, requested_bytes })
}

pub fn amount(v: i64) -> PaymentAmount {
    if v >= 0 {
        PaymentAmount::pay_merchant(v as u64).expect("amount")
    } else {
        PaymentAmount::pay_customer(v.unsigned_abs()).expect("amount")
    }
}

/// Honest start of a payment.
pub fn start(m: &Merchant, ready: Ready, amt: i64, ctx: &Context, seed: u64) -> Option<(Started, StartMessage)> {
    ready.start(&mut rng(seed ^ 0xa1), amount(amt), ctx, &m.cust).ok()
}

/// One complete honest payment.
pub fn pay(m: &Merchant, ready: Ready, amt: i64, ctx: &Context, seed: u64) -> Option<Ready> {
    let (started, msg) = start(m, ready, amt, ctx, seed)?;
    let (unrevoked, closing) = m.cfg.allow_payment(&mut rng(seed ^ 0xa2), amount(amt), &msg.nonce, msg.pay_proof, ctx)?;
    let (locked, lock_msg) = started.lock(closing, &m.cust).ok()?;
    let token = unrevoked
        .complete_payment(&mut rng(seed ^ 0xa3), &lock_msg.revocation_pair, &lock_msg.revocation_lock_blinding_factor)
        .ok()?;
    locked.unlock(token, &m.cust).ok()
}
