//! Protocol-level models: ledger, history interpreter, fault alphabet, forger.
