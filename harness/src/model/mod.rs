//! Protocol-level models: ledger, history interpreter, fault alphabet, forger.
pub mod forger;
pub mod history;
pub mod proto;
