//! Protocol-level models: ledger, history interpreter, fault alphabet, forger.
#[cfg(feature = "full")]
pub mod forger;
#[cfg(feature = "full")]
pub mod history;
pub mod proto;
