//! Algebraic forger: a re-implementation of the establish / pay provers on bls12_381 arithmetic
//! (from the merchant's *public* parameters only), parameterised by the hidden messages (the
//! lie), the links between commitment scalars, and the proof field that is chosen *after* the
//! verifier's challenge is known. Proof bytes are assembled through the traced wire schema.
//! The forger always knows an opening of every commitment it submits, so
//! "accepted and the known openings violate the agreed statement" is an exact oracle.

use super::proto::Merchant;
use crate::engine::refmath::{pedersen, PkAtoms};
use crate::engine::wire::{self, Image};
use crate::props::common::{rand_nonzero_scalar, rand_scalar};
use bls12_381::{G1Affine, G1Projective, G2Projective, Scalar};
use group::{Curve, Group};
use serde::{Deserialize, Serialize};

/// One Schnorr sub-proof (commitment proof over (h, gs)) with everything the prover knows.
#[derive(Clone, Debug)]
pub struct Sub<G: Group<Scalar = Scalar>> {
    pub h: G,
    pub gs: Vec<G>,
    /// opening of `c_pt` known to the forger
    pub m: Vec<Scalar>,
    pub r: Scalar,
    /// commitment scalars (opening of `t_pt`)
    pub t: Vec<Scalar>,
    pub tbf: Scalar,
    pub c_pt: G,
    pub t_pt: G,
    pub z: Vec<Scalar>,
    pub zbf: Scalar,
}

impl<G: Group<Scalar = Scalar>> Sub<G> {
    pub fn new(h: G, gs: Vec<G>, m: Vec<Scalar>, r: Scalar, t: Vec<Scalar>, tbf: Scalar) -> Self {
        let c_pt = pedersen(&h, &gs, &m, &r);
        let t_pt = pedersen(&h, &gs, &t, &tbf);
        let n = m.len();
        Sub { h, gs, m, r, t, tbf, c_pt, t_pt, z: vec![Scalar::zero(); n], zbf: Scalar::zero() }
    }
    /// honest responses for challenge c
    pub fn respond(&mut self, c: &Scalar) {
        self.zbf = *c * self.r + self.tbf;
        for i in 0..self.m.len() {
            self.z[i] = *c * self.m[i] + self.t[i];
        }
    }
    /// choose the scalar commitment last: T := Com(z; zbf) - c*C  (the opening of C is unchanged)
    pub fn t_last(&mut self, c: &Scalar) {
        self.t_pt = pedersen(&self.h, &self.gs, &self.z, &self.zbf) - self.c_pt * *c;
    }
    /// choose the commitment last: C := c^-1 (Com(z; zbf) - T); the forger then knows the opening
    /// ((z - t)/c ; (zbf - tbf)/c)
    pub fn c_last(&mut self, c: &Scalar) {
        let ci = c.invert().unwrap();
        self.c_pt = (pedersen(&self.h, &self.gs, &self.z, &self.zbf) - self.t_pt) * ci;
        for i in 0..self.m.len() {
            self.m[i] = (self.z[i] - self.t[i]) * ci;
        }
        self.r = (self.zbf - self.tbf) * ci;
    }
    pub fn opening_is_consistent(&self) -> bool {
        pedersen(&self.h, &self.gs, &self.m, &self.r) == self.c_pt
    }
}

pub trait PointBytes {
    fn pb(&self) -> Vec<u8>;
}
impl PointBytes for G1Projective {
    fn pb(&self) -> Vec<u8> {
        self.to_affine().to_compressed().to_vec()
    }
}
impl PointBytes for G2Projective {
    fn pb(&self) -> Vec<u8> {
        self.to_affine().to_compressed().to_vec()
    }
}

pub fn write_sub<G: Group<Scalar = Scalar> + PointBytes>(img: &mut Image, prefix: &str, s: &Sub<G>) {
    img.set(&format!("{}commitment", prefix), &s.c_pt.pb());
    img.set(&format!("{}scalar_commitment", prefix), &s.t_pt.pb());
    img.set(&format!("{}blinding_factor_response_scalar", prefix), &s.zbf.to_bytes());
    for (j, i) in img.list(&format!("{}message_response_scalars", prefix)).into_iter().enumerate() {
        img.set_at(i, &s.z[j].to_bytes());
    }
}

fn rs(seed: u64, k: u64) -> Scalar {
    rand_scalar(seed.wrapping_mul(0x9e37_79b9_7f4a_7c15).wrapping_add(k))
}

pub const CLOSE: Scalar = zkabacus_crypto::CLOSE_SCALAR;

// =================================================================================== establish

/// Hidden messages of an establish attempt: state (cid, nonce, lock, cb, mb) and close state
/// (cid, tag, lock, cb, mb) as arbitrary scalars.
#[derive(Clone, Debug)]
pub struct EstHidden {
    pub state: [Scalar; 5],
    pub close: [Scalar; 5],
}

#[derive(Clone, Debug, Serialize, Deserialize, Hash, PartialEq, Eq)]
pub enum EstStrategy {
    /// honest prover run on the (lying) hidden messages
    Plain,
    /// revealed commitment scalars chosen after the challenge so that the close-state equations hold
    RevealedLast,
    /// only revealed scalar `i` (0 cid, 1 tag, 2 cb, 3 mb) chosen after the challenge
    RevealedOne(u8),
    /// one link between the two proofs dropped (slot 0, 2, 3 or 4 gets independent scalars)
    DropLink(u8),
    /// scalar commitment of the state (false) / close (true) proof chosen after the challenge,
    /// responses set to satisfy every linear check; `fix_revealed` also re-chooses the revealed scalars
    TLast { close: bool, fix_revealed: bool },
    /// commitment of the state / close proof chosen after the challenge
    CLast { close: bool, fix_revealed: bool },
    /// plain run, then `n` atoms of the proof replaced by random valid atoms
    Mutate(u8, u64),
    /// commitments to the lying messages, but every response computed as if the agreed messages
    /// had been committed (each Schnorr equation is then false by c*(lie - agreed); only a verifier
    /// that aggregates equations without independent weights can be satisfied, when the lies of
    /// the two sub-proofs cancel)
    AnswerAsAgreed,
}

pub struct EstAttempt {
    pub bytes: Vec<u8>,
    /// openings the forger knows for the two submitted commitments
    pub state_opening: Vec<Scalar>,
    pub close_opening: Vec<Scalar>,
    pub state_bf: Scalar,
    pub close_bf: Scalar,
    pub openings_consistent: bool,
}

pub struct EstPublic {
    pub cid: Scalar,
    pub cb: Scalar,
    pub mb: Scalar,
}

/// Does a pair of openings satisfy the agreed establish statement?
pub fn est_statement_holds(p: &EstPublic, state: &[Scalar], close: &[Scalar]) -> bool {
    state[0] == p.cid && state[3] == p.cb && state[4] == p.mb && close[0] == p.cid && close[1] == CLOSE && close[2] == state[2] && close[3] == p.cb && close[4] == p.mb
}

pub struct EstForger {
    pub template: Image,
    pub state: Sub<G1Projective>,
    pub close: Sub<G1Projective>,
    pub revealed: [Scalar; 4],
    /// the messages an honest prover would have committed to for the agreed values
    pub agreed: EstHidden,
}

const EST_REVEALED_SLOTS: [usize; 4] = [0, 1, 3, 4];
const EST_REVEALED_PATHS: [&str; 4] = ["channel_id_commitment_scalar", "close_tag_commitment_scalar", "customer_balance_commitment_scalar", "merchant_balance_commitment_scalar"];

impl EstForger {
    /// Commitment phase. `template` is the image of any honest establish proof (layout only).
    pub fn commit(pk: &PkAtoms, template: &Image, hidden: &EstHidden, agreed: &EstHidden, drop_link: Option<usize>, seed: u64) -> EstForger {
        let (h, gs) = pk.g1_params();
        let t1: Vec<Scalar> = (0..5).map(|i| rs(seed, 10 + i)).collect();
        let mut t2 = t1.clone();
        t2[1] = rs(seed, 20);
        if let Some(k) = drop_link {
            t2[k] = rs(seed, 30 + k as u64);
        }
        let state = Sub::new(h, gs.clone(), hidden.state.to_vec(), rs(seed, 1), t1, rs(seed, 2));
        let close = Sub::new(h, gs, hidden.close.to_vec(), rs(seed, 3), t2.clone(), rs(seed, 4));
        let revealed = [t2[0], t2[1], t2[3], t2[4]];
        EstForger { template: template.clone(), state, close, revealed, agreed: agreed.clone() }
    }

    pub fn bytes(&self) -> Vec<u8> {
        let mut img = self.template.clone();
        for i in 0..4 {
            img.set(EST_REVEALED_PATHS[i], &self.revealed[i].to_bytes());
        }
        write_sub(&mut img, "state_proof.commitment_proof.", &self.state);
        write_sub(&mut img, "close_state_proof.commitment_proof.", &self.close);
        img.bytes
    }

    /// Response phase for challenge `c` under `strategy`.
    pub fn respond(&mut self, c: &Scalar, p: &EstPublic, strategy: &EstStrategy, seed: u64) {
        self.state.respond(c);
        self.close.respond(c);
        let pubs = [p.cid, CLOSE, p.cb, p.mb];
        let fix_revealed = |f: &mut EstForger, from_close: bool| {
            for i in 0..4 {
                let slot = EST_REVEALED_SLOTS[i];
                let z = if from_close || slot == 1 { f.close.z[slot] } else { f.state.z[slot] };
                f.revealed[i] = z - *c * pubs[i];
            }
        };
        match strategy {
            EstStrategy::Plain | EstStrategy::DropLink(_) | EstStrategy::Mutate(..) => {}
            EstStrategy::AnswerAsAgreed => {
                for i in 0..5 {
                    self.state.z[i] = *c * self.agreed.state[i] + self.state.t[i];
                    self.close.z[i] = *c * self.agreed.close[i] + self.close.t[i];
                }
            }
            EstStrategy::RevealedLast => fix_revealed(self, true),
            EstStrategy::RevealedOne(i) => {
                let i = (*i % 4) as usize;
                self.revealed[i] = self.close.z[EST_REVEALED_SLOTS[i]] - *c * pubs[i];
            }
            EstStrategy::TLast { close, fix_revealed: fr } | EstStrategy::CLast { close, fix_revealed: fr } => {
                if *fr {
                    // make the *other* proof's equations hold through the revealed scalars
                    fix_revealed(self, !*close);
                    if *close {
                        // the tag slot only exists on the close side: keep its honest scalar
                        self.revealed[1] = self.close.t[1];
                    }
                }
                let want = |slot: usize, f: &EstForger| -> Scalar {
                    match slot {
                        0 => *c * p.cid + f.revealed[0],
                        1 => *c * CLOSE + f.revealed[1],
                        3 => *c * p.cb + f.revealed[2],
                        _ => *c * p.mb + f.revealed[3],
                    }
                };
                if *close {
                    for slot in [0usize, 1, 3, 4] {
                        self.close.z[slot] = want(slot, self);
                    }
                    self.close.z[2] = self.state.z[2];
                    self.close.zbf = rs(seed, 50);
                } else {
                    for slot in [0usize, 3, 4] {
                        self.state.z[slot] = want(slot, self);
                    }
                    self.state.z[2] = self.close.z[2];
                    self.state.zbf = rs(seed, 51);
                }
                let t_last = matches!(strategy, EstStrategy::TLast { .. });
                let sub = if *close { &mut self.close } else { &mut self.state };
                if t_last {
                    sub.t_last(c);
                } else {
                    sub.c_last(c);
                }
            }
        }
    }

    pub fn attempt(&self, mutate: Option<(u8, u64)>) -> EstAttempt {
        let mut bytes = self.bytes();
        if let Some((n, seed)) = mutate {
            let img = Image { bytes: bytes.clone(), atoms: self.template.atoms.clone() };
            let idxs = crate::props::c08::replaceable(&img);
            let mut im = img.clone();
            for k in 0..(1 + n % 2) as u64 {
                let i = idxs[(seed.wrapping_add(k * 7919) as usize) % idxs.len()];
                let new: Vec<u8> = match im.atoms[i].kind {
                    wire::Kind::B32 => rs(seed, 90 + k).to_bytes().to_vec(),
                    _ => (G1Projective::generator() * rand_nonzero_scalar(seed ^ (91 + k))).pb(),
                };
                im.set_at(i, &new);
            }
            bytes = im.bytes;
        }
        EstAttempt {
            bytes,
            state_opening: self.state.m.clone(),
            close_opening: self.close.m.clone(),
            state_bf: self.state.r,
            close_bf: self.close.r,
            openings_consistent: self.state.opening_is_consistent() && self.close.opening_is_consistent(),
        }
    }
}

// ========================================================================================= pay

/// Everything a pay attempt hides: old state message and the token shown for it, new state and
/// close state messages, the lock committed for revocation, the values the range constraints
/// are built for.
#[derive(Clone, Debug)]
pub struct PayHidden {
    pub old: [Scalar; 5],
    pub token: (G1Affine, G1Affine),
    pub state: [Scalar; 5],
    pub close: [Scalar; 5],
    pub revoked_lock: Scalar,
    /// digits claimed for the customer / merchant range constraint (each with a published signature)
    pub cb_digits: Vec<u64>,
    pub mb_digits: Vec<u64>,
    /// added to the message of digit 0 (a "digit" outside 0..u-1, e.g. -1, shown with the published
    /// signature on the unshifted digit): lets the digit sum hit an out-of-range value
    pub cb_digit0_shift: Scalar,
    pub mb_digit0_shift: Scalar,
    /// replace digit proofs 0 and 1 by a jointly crafted cancelling pair aimed at this value
    pub cb_cancel: Option<Scalar>,
    pub mb_cancel: Option<Scalar>,
    /// show `token` exactly as given instead of re-randomizing and blinding it (for "tokens" made of
    /// curve points outside the prime-order subgroup, whose pairing with anything is 1)
    pub raw_token: bool,
}

#[derive(Clone, Debug, Serialize, Deserialize, Hash, PartialEq, Eq)]
pub enum PayField {
    Token,
    RevLock,
    State,
    Close,
    CbDigit(u8),
    MbDigit(u8),
}

#[derive(Clone, Debug, Serialize, Deserialize, Hash, PartialEq, Eq)]
pub enum PayStrategy {
    Plain,
    /// both revealed commitment scalars (old nonce, close tag) chosen after the challenge
    RevealedLast,
    /// only one of them (0 = old nonce, 1 = close tag)
    RevealedOne(u8),
    /// scalar commitment of one sub-proof chosen after the challenge, responses repaired to satisfy
    /// every linear check that involves that sub-proof
    TLast(PayField, bool),
    /// commitment of one sub-proof chosen after the challenge
    CLast(PayField, bool),
    Mutate(u8, u64),
    /// commitments to the lying messages, responses of the token / lock / state / close proofs
    /// computed as if the truthful messages had been committed (see `EstStrategy::AnswerAsAgreed`)
    AnswerAsAgreed,
}

pub struct PayPublic {
    pub nonce: Scalar,
    pub amount: Scalar,
}

pub struct PayForger {
    pub template: Image,
    pub token_sig: (G1Projective, G1Projective),
    pub token: Sub<G2Projective>,
    pub rev: Sub<G1Projective>,
    pub state: Sub<G1Projective>,
    pub close: Sub<G1Projective>,
    pub cb_digits: Vec<(G1Projective, G1Projective, Sub<G2Projective>)>,
    pub mb_digits: Vec<(G1Projective, G1Projective, Sub<G2Projective>)>,
    pub revealed: [Scalar; 2],
    pub u: u64,
    /// truthful messages (old, state, close, revoked lock) for the answer-as-agreed strategy
    pub truthful: Option<([Scalar; 5], [Scalar; 5], [Scalar; 5], Scalar)>,
}

pub struct PayAttempt {
    pub bytes: Vec<u8>,
    pub old_opening: Vec<Scalar>,
    pub state_opening: Vec<Scalar>,
    pub close_opening: Vec<Scalar>,
    pub revoked_lock: Scalar,
    pub rev_bf: Scalar,
    pub close_bf: Scalar,
    pub state_bf: Scalar,
    pub cb_value: Scalar,
    pub mb_value: Scalar,
    pub openings_consistent: bool,
}

pub type DigitProofs = Vec<(G1Projective, G1Projective, Sub<G2Projective>)>;

/// Jointly crafted digit proofs 0 and 1 whose pairing errors cancel: with (h, S) the published
/// signature on digit 0 and digit commitments to arbitrary field elements M0, M1
/// (M0 + u*M1 = target), choose a0*M0 + a1*M1 = 0 and show sigma1_j = h^{a_j},
/// sigma2_0 + sigma2_1 = S^{a0+a1} * h^{a0 r0 + a1 r1}. Each pairing equation is false, their
/// unweighted product is the identity. The Schnorr parts are honest (openings known).
pub fn cancelling_pair(range_img: &Image, subs: &mut DigitProofs, target: &Scalar, u: u64, seed: u64) {
    if subs.len() < 2 {
        return;
    }
    let h = G1Projective::from(range_img.g1("digit_signatures.0.sigma1"));
    let s = G1Projective::from(range_img.g1("digit_signatures.0.sigma2"));
    // value still encoded by digits 2.. (kept as they are)
    let mut rest = Scalar::zero();
    let mut upow = Scalar::from(u) * Scalar::from(u);
    for (_, _, sub) in subs.iter().skip(2) {
        rest += upow * sub.m[0];
        upow *= Scalar::from(u);
    }
    let m1 = rand_nonzero_scalar(seed ^ 0xca1);
    let m0 = *target - rest - Scalar::from(u) * m1;
    let (a0, a1) = (m1, -m0);
    for (j, mj) in [(0usize, m0), (1usize, m1)] {
        let (hh, gs, r, t, tbf) = (subs[j].2.h, subs[j].2.gs.clone(), subs[j].2.r, subs[j].2.t.clone(), subs[j].2.tbf);
        subs[j].2 = Sub::new(hh, gs, vec![mj], r, t, tbf);
    }
    let (r0, r1) = (subs[0].2.r, subs[1].2.r);
    let split = G1Projective::generator() * rand_nonzero_scalar(seed ^ 0xca2);
    subs[0].0 = h * a0;
    subs[1].0 = h * a1;
    subs[0].1 = split;
    subs[1].1 = s * (a0 + a1) + h * (a0 * r0 + a1 * r1) - split;
}

pub fn digit_subs(m: &Merchant, digits: &[u64], d0_shift: &Scalar, seed: u64, tag: u64) -> (DigitProofs, Scalar) {
    let (h, gs) = m.range_pk.g2_params();
    let u = m.range_img.atoms.iter().filter(|a| a.path.starts_with("digit_signatures.") && a.path.ends_with(".sigma1")).count() as u64;
    let mut out = Vec::new();
    let mut cs = Scalar::zero();
    let mut upow = Scalar::one();
    for (j, d) in digits.iter().enumerate() {
        let k = tag * 1000 + j as u64 * 10;
        let bf = rs(seed, 100 + k);
        let rho = rand_nonzero_scalar(seed ^ (101 + k));
        // published signature on the digit (digits >= u have none: use the signature on d mod u)
        let di = (*d % u) as usize;
        let s1 = G1Projective::from(m.range_img.g1(&format!("digit_signatures.{}.sigma1", di)));
        let s2 = G1Projective::from(m.range_img.g1(&format!("digit_signatures.{}.sigma2", di)));
        let b1 = s1 * rho;
        let b2 = (s2 + s1 * bf) * rho;
        let t = rs(seed, 102 + k);
        let dm = if j == 0 { Scalar::from(*d) + *d0_shift } else { Scalar::from(*d) };
        let sub = Sub::new(h, gs.clone(), vec![dm], bf, vec![t], rs(seed, 103 + k));
        cs += upow * t;
        upow *= Scalar::from(u);
        out.push((b1, b2, sub));
    }
    (out, cs)
}

/// Value a digit list encodes, as a scalar (base u).
pub fn digits_value(digits: &[u64], u: u64) -> Scalar {
    let mut v = Scalar::zero();
    let mut upow = Scalar::one();
    for d in digits {
        v += upow * Scalar::from(*d);
        upow *= Scalar::from(u);
    }
    v
}

/// Base-u digits of a value in [0, u^l).
pub fn to_digits(mut v: u128, u: u64, l: usize) -> Vec<u64> {
    let mut d = Vec::new();
    for _ in 0..l {
        d.push((v % u as u128) as u64);
        v /= u as u128;
    }
    d
}

impl PayForger {
    pub fn commit(m: &Merchant, template: &Image, hidden: &PayHidden, seed: u64) -> PayForger {
        let u = m.range_img.atoms.iter().filter(|a| a.path.starts_with("digit_signatures.") && a.path.ends_with(".sigma1")).count() as u64;
        let (mut cb_digits, cs_cb) = digit_subs(m, &hidden.cb_digits, &hidden.cb_digit0_shift, seed, 1);
        let (mut mb_digits, cs_mb) = digit_subs(m, &hidden.mb_digits, &hidden.mb_digit0_shift, seed, 2);
        if let Some(t) = &hidden.cb_cancel {
            cancelling_pair(&m.range_img, &mut cb_digits, t, u, seed ^ 0xcb);
        }
        if let Some(t) = &hidden.mb_cancel {
            cancelling_pair(&m.range_img, &mut mb_digits, t, u, seed ^ 0x3b);
        }
        // revocation-lock commitment
        let t_r = rs(seed, 40);
        let rev = Sub::new(m.rev_h, vec![m.rev_g], vec![hidden.revoked_lock], rs(seed, 41), vec![t_r], rs(seed, 42));
        // token proof over (g2, y2s)
        let (h2, g2s) = m.pk.g2_params();
        let tt = vec![rs(seed, 43), rs(seed, 44), t_r, cs_cb, cs_mb];
        let bf_t = rs(seed, 45);
        let rho = rand_nonzero_scalar(seed ^ 46);
        let s1 = G1Projective::from(hidden.token.0);
        let s2 = G1Projective::from(hidden.token.1);
        let token_sig = if hidden.raw_token { (s1, s2) } else { (s1 * rho, (s2 + s1 * bf_t) * rho) };
        let token = Sub::new(h2, g2s, hidden.old.to_vec(), bf_t, tt.clone(), rs(seed, 47));
        // new state / close state over (g1, y1s)
        let (h1, g1s) = m.pk.g1_params();
        let t1 = vec![tt[0], rs(seed, 48), rs(seed, 49), cs_cb, cs_mb];
        let t2 = vec![t1[0], rs(seed, 50), t1[2], t1[3], t1[4]];
        let state = Sub::new(h1, g1s.clone(), hidden.state.to_vec(), rs(seed, 51), t1, rs(seed, 52));
        let close = Sub::new(h1, g1s, hidden.close.to_vec(), rs(seed, 53), t2.clone(), rs(seed, 54));
        PayForger { template: template.clone(), token_sig, token, rev, state, close, cb_digits, mb_digits, revealed: [tt[1], t2[1]], u, truthful: None }
    }

    pub fn bytes(&self) -> Vec<u8> {
        let mut img = self.template.clone();
        img.set("old_nonce_commitment_scalar", &self.revealed[0].to_bytes());
        img.set("close_tag_commitment_scalar", &self.revealed[1].to_bytes());
        img.set("old_pay_token_proof.blinded_signature.sigma1", &self.token_sig.0.pb());
        img.set("old_pay_token_proof.blinded_signature.sigma2", &self.token_sig.1.pb());
        write_sub(&mut img, "old_pay_token_proof.commitment_proof.", &self.token);
        write_sub(&mut img, "old_revocation_lock_proof.", &self.rev);
        write_sub(&mut img, "state_proof.commitment_proof.", &self.state);
        write_sub(&mut img, "close_state_proof.commitment_proof.", &self.close);
        for (name, ds) in [("customer_balance_proof", &self.cb_digits), ("merchant_balance_proof", &self.mb_digits)] {
            for (j, (b1, b2, sub)) in ds.iter().enumerate() {
                let p = format!("{}.digit_proofs.{}.", name, j);
                img.set(&format!("{}blinded_signature.sigma1", p), &b1.pb());
                img.set(&format!("{}blinded_signature.sigma2", p), &b2.pb());
                write_sub(&mut img, &format!("{}commitment_proof.", p), sub);
            }
        }
        img.bytes
    }

    fn range_sum(ds: &[(G1Projective, G1Projective, Sub<G2Projective>)], u: u64) -> Scalar {
        let mut v = Scalar::zero();
        let mut upow = Scalar::one();
        for (_, _, s) in ds {
            v += upow * s.z[0];
            upow *= Scalar::from(u);
        }
        v
    }

    pub fn respond(&mut self, c: &Scalar, p: &PayPublic, strategy: &PayStrategy, seed: u64) {
        self.token.respond(c);
        self.rev.respond(c);
        self.state.respond(c);
        self.close.respond(c);
        for (_, _, s) in self.cb_digits.iter_mut().chain(self.mb_digits.iter_mut()) {
            s.respond(c);
        }
        let u = self.u;
        let fix_revealed = |f: &mut PayForger| {
            f.revealed[0] = f.token.z[1] - *c * p.nonce;
            f.revealed[1] = f.close.z[1] - *c * CLOSE;
        };
        match strategy {
            PayStrategy::Plain | PayStrategy::Mutate(..) => {}
            PayStrategy::AnswerAsAgreed => {
                if let Some((old, st, cl, lock)) = self.truthful {
                    for i in 0..5 {
                        self.token.z[i] = *c * old[i] + self.token.t[i];
                        self.state.z[i] = *c * st[i] + self.state.t[i];
                        self.close.z[i] = *c * cl[i] + self.close.t[i];
                    }
                    self.rev.z[0] = *c * lock + self.rev.t[0];
                }
            }
            PayStrategy::RevealedLast => fix_revealed(self),
            PayStrategy::RevealedOne(i) => {
                if *i % 2 == 0 {
                    self.revealed[0] = self.token.z[1] - *c * p.nonce;
                } else {
                    self.revealed[1] = self.close.z[1] - *c * CLOSE;
                }
            }
            PayStrategy::TLast(field, fr) | PayStrategy::CLast(field, fr) => {
                let t_last = matches!(strategy, PayStrategy::TLast(..));
                // repair the responses of the chosen sub-proof so that every linear check touching
                // it holds, given the (honest-for-the-lie) responses of all the others
                match field {
                    PayField::Token => {
                        self.token.z[0] = self.state.z[0];
                        self.token.z[1] = *c * p.nonce + self.revealed[0];
                        self.token.z[2] = self.rev.z[0];
                        self.token.z[3] = self.state.z[3] + *c * p.amount;
                        self.token.z[4] = self.state.z[4] - *c * p.amount;
                        self.token.zbf = rs(seed, 60);
                    }
                    PayField::RevLock => {
                        self.rev.z[0] = self.token.z[2];
                        self.rev.zbf = rs(seed, 61);
                    }
                    PayField::State => {
                        self.state.z[0] = self.token.z[0];
                        self.state.z[2] = self.close.z[2];
                        self.state.z[3] = self.token.z[3] - *c * p.amount;
                        self.state.z[4] = self.token.z[4] + *c * p.amount;
                        self.state.zbf = rs(seed, 62);
                        // the range constraints must then be aimed at these responses: not possible
                        // for the digit proofs already fixed, unless they agree by construction
                    }
                    PayField::Close => {
                        self.close.z[0] = self.state.z[0];
                        self.close.z[1] = *c * CLOSE + self.revealed[1];
                        self.close.z[2] = self.state.z[2];
                        self.close.z[3] = self.state.z[3];
                        self.close.z[4] = self.state.z[4];
                        self.close.zbf = rs(seed, 63);
                    }
                    PayField::CbDigit(j) | PayField::MbDigit(j) => {
                        let is_cb = matches!(field, PayField::CbDigit(_));
                        let target = if is_cb { self.state.z[3] } else { self.state.z[4] };
                        let ds = if is_cb { &mut self.cb_digits } else { &mut self.mb_digits };
                        let j = (*j as usize) % ds.len();
                        // choose digit j's response so that the weighted sum hits the state's response
                        let sum = Self::range_sum(ds, u);
                        let mut upow = Scalar::one();
                        for _ in 0..j {
                            upow *= Scalar::from(u);
                        }
                        let cur = ds[j].2.z[0];
                        ds[j].2.z[0] = cur + (target - sum) * upow.invert().unwrap();
                        ds[j].2.zbf = rs(seed, 64);
                    }
                }
                if *fr {
                    fix_revealed(self);
                    // the repaired sub-proof may depend on the revealed scalars: re-apply
                    match field {
                        PayField::Token => self.token.z[1] = *c * p.nonce + self.revealed[0],
                        PayField::Close => self.close.z[1] = *c * CLOSE + self.revealed[1],
                        _ => {}
                    }
                }
                macro_rules! last {
                    ($s:expr) => {
                        if t_last {
                            $s.t_last(c)
                        } else {
                            $s.c_last(c)
                        }
                    };
                }
                match field {
                    PayField::Token => last!(self.token),
                    PayField::RevLock => last!(self.rev),
                    PayField::State => last!(self.state),
                    PayField::Close => last!(self.close),
                    PayField::CbDigit(j) => {
                        let n = self.cb_digits.len();
                        last!(self.cb_digits[(*j as usize) % n].2)
                    }
                    PayField::MbDigit(j) => {
                        let n = self.mb_digits.len();
                        last!(self.mb_digits[(*j as usize) % n].2)
                    }
                }
            }
        }
    }

    pub fn attempt(&self, mutate: Option<(u8, u64)>) -> PayAttempt {
        let mut bytes = self.bytes();
        if let Some((n, seed)) = mutate {
            let img = Image { bytes: bytes.clone(), atoms: self.template.atoms.clone() };
            let idxs = crate::props::c08::replaceable(&img);
            let mut im = img.clone();
            for k in 0..(1 + n % 2) as u64 {
                let i = idxs[(seed.wrapping_add(k * 7919) as usize) % idxs.len()];
                let new: Vec<u8> = match im.atoms[i].kind {
                    wire::Kind::B32 => rs(seed, 90 + k).to_bytes().to_vec(),
                    wire::Kind::G1 => (G1Projective::generator() * rand_nonzero_scalar(seed ^ (91 + k))).pb(),
                    _ => (G2Projective::generator() * rand_nonzero_scalar(seed ^ (92 + k))).pb(),
                };
                im.set_at(i, &new);
            }
            bytes = im.bytes;
        }
        let u = self.u;
        let val = |ds: &[(G1Projective, G1Projective, Sub<G2Projective>)]| {
            let mut v = Scalar::zero();
            let mut upow = Scalar::one();
            for (_, _, s) in ds {
                v += upow * s.m[0];
                upow *= Scalar::from(u);
            }
            v
        };
        PayAttempt {
            bytes,
            old_opening: self.token.m.clone(),
            state_opening: self.state.m.clone(),
            close_opening: self.close.m.clone(),
            revoked_lock: self.rev.m[0],
            rev_bf: self.rev.r,
            close_bf: self.close.r,
            state_bf: self.state.r,
            cb_value: val(&self.cb_digits),
            mb_value: val(&self.mb_digits),
            openings_consistent: self.token.opening_is_consistent()
                && self.state.opening_is_consistent()
                && self.close.opening_is_consistent()
                && self.rev.opening_is_consistent()
                && self.cb_digits.iter().chain(self.mb_digits.iter()).all(|(_, _, s)| s.opening_is_consistent()),
        }
    }
}
