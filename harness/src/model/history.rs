//! Model-based history interpreter: drives the real `customer::*` / `merchant::*` API with a
//! generated channel history and checks, as enabled, the ideal ledger (C04), closability and
//! inertness of bad replies (C03), store/restore twins (C20), the merchant's view (C14) and the
//! revocation-completion rule (C05).

use super::proto::*;
use crate::engine::refmath::{self, ps_verify, u64_scalar};
use crate::engine::rng::{Pattern, ScriptedRng, Window};
use crate::engine::wire::{self, Image, Kind};
use crate::engine::{pick_idx, Fail, Rec, R};
use crate::props::common::{rand_nonzero_scalar, rand_scalar, rng, ScSpec};
use bls12_381::{G1Affine, G1Projective, Scalar};
use group::{Curve, Group};
use proptest::prelude::*;
use serde::{de::DeserializeOwned, Deserialize, Serialize};
use serde_json::{json, Value};
use std::collections::{HashMap, HashSet};
use zkabacus_crypto::{
    customer::{ClosingMessage, Inactive, Locked, Ready, Requested, Started},
    revlock::{RevocationLockBlindingFactor, RevocationPair},
    ClosingSignature, EstablishProof, Error, PayProof, PayToken, PaymentAmount,
};

pub const MAXB: u64 = i64::MAX as u64;

#[derive(Clone, Debug, Serialize, Deserialize, Hash, PartialEq, Eq)]
pub enum BalSel {
    Zero,
    One,
    Two,
    P31,
    P32,
    P62,
    MaxM1,
    Max,
    Rand(u64),
}

impl BalSel {
    pub fn get(&self) -> u64 {
        match self {
            BalSel::Zero => 0,
            BalSel::One => 1,
            BalSel::Two => 2,
            BalSel::P31 => 1 << 31,
            BalSel::P32 => 1 << 32,
            BalSel::P62 => 1 << 62,
            BalSel::MaxM1 => MAXB - 1,
            BalSel::Max => MAXB,
            BalSel::Rand(s) => (s >> 1) >> (s % 50),
        }
    }
    pub fn label(&self) -> &'static str {
        match self {
            BalSel::Rand(_) => "random",
            BalSel::Zero => "0",
            BalSel::Max => "2^63-1",
            BalSel::MaxM1 => "2^63-2",
            _ => "lattice",
        }
    }
}

pub fn bal_sel() -> impl Strategy<Value = BalSel> {
    prop_oneof![
        2 => Just(BalSel::Zero),
        1 => Just(BalSel::One),
        1 => Just(BalSel::Two),
        1 => Just(BalSel::P31),
        1 => Just(BalSel::P32),
        1 => Just(BalSel::P62),
        1 => Just(BalSel::MaxM1),
        2 => Just(BalSel::Max),
        8 => any::<u64>().prop_map(BalSel::Rand),
    ]
}

#[derive(Clone, Debug, Serialize, Deserialize, Hash, PartialEq, Eq)]
pub enum AmtSel {
    Zero,
    Unit(bool),
    Cb(bool),
    CbPlus1(bool),
    Mb(bool),
    MbPlus1(bool),
    Max(bool),
    FillMerchant,
    FillCustomer,
    InRange(u64),
    Rand63(u64, bool),
    Small(u16, bool),
    /// (cb - mb) / 2: afterwards both hidden balances coincide (or differ by one)
    Equalize,
}

impl AmtSel {
    /// Resolve against the model's current balances. `true` sign = customer pays merchant (+).
    pub fn get(&self, cb: u64, mb: u64) -> i128 {
        let s = |pos: &bool, v: i128| if *pos { v } else { -v };
        let max = MAXB as i128;
        match self {
            AmtSel::Zero => 0,
            AmtSel::Unit(p) => s(p, 1),
            AmtSel::Cb(p) => s(p, cb as i128),
            AmtSel::CbPlus1(p) => s(p, cb as i128 + 1),
            AmtSel::Mb(p) => s(p, mb as i128),
            AmtSel::MbPlus1(p) => s(p, mb as i128 + 1),
            AmtSel::Max(p) => s(p, max),
            AmtSel::FillMerchant => max - mb as i128,
            AmtSel::FillCustomer => -(max - cb as i128),
            AmtSel::InRange(r) => {
                let lo = (-(mb as i128)).max(cb as i128 - max);
                let hi = (cb as i128).min(max - mb as i128);
                if hi < lo {
                    0
                } else {
                    lo + (*r as i128) % (hi - lo + 1)
                }
            }
            AmtSel::Rand63(r, p) => s(p, (*r >> 1) as i128),
            AmtSel::Small(v, p) => s(p, *v as i128),
            AmtSel::Equalize => (cb as i128 - mb as i128) / 2,
        }
    }
    pub fn label(&self) -> &'static str {
        match self {
            AmtSel::Zero => "0",
            AmtSel::Unit(_) => "+-1",
            AmtSel::Cb(_) => "+-cb",
            AmtSel::CbPlus1(_) => "+-(cb+1)",
            AmtSel::Mb(_) => "+-mb",
            AmtSel::MbPlus1(_) => "+-(mb+1)",
            AmtSel::Max(_) => "+-(2^63-1)",
            AmtSel::FillMerchant => "+(2^63-1-mb)",
            AmtSel::FillCustomer => "-(2^63-1-cb)",
            AmtSel::InRange(_) => "random-in-range",
            AmtSel::Rand63(..) => "random-63-bit",
            AmtSel::Small(..) => "small",
            AmtSel::Equalize => "(cb-mb)/2",
        }
    }
    pub fn is_boundary(&self) -> bool {
        !matches!(self, AmtSel::InRange(_) | AmtSel::Rand63(..) | AmtSel::Small(..))
    }
}

pub fn amt_sel() -> impl Strategy<Value = AmtSel> {
    prop_oneof![
        2 => Just(AmtSel::Zero),
        2 => any::<bool>().prop_map(AmtSel::Unit),
        2 => any::<bool>().prop_map(AmtSel::Cb),
        2 => any::<bool>().prop_map(AmtSel::CbPlus1),
        2 => any::<bool>().prop_map(AmtSel::Mb),
        2 => any::<bool>().prop_map(AmtSel::MbPlus1),
        1 => any::<bool>().prop_map(AmtSel::Max),
        1 => Just(AmtSel::FillMerchant),
        1 => Just(AmtSel::FillCustomer),
        8 => any::<u64>().prop_map(AmtSel::InRange),
        1 => (any::<u64>(), any::<bool>()).prop_map(|(r, p)| AmtSel::Rand63(r, p)),
        3 => Just(AmtSel::Equalize),
        3 => (any::<u16>(), any::<bool>()).prop_map(|(r, p)| AmtSel::Small(r, p)),
    ]
}

/// Faults on a merchant reply (a blind signature on a commitment the customer sent).
#[derive(Clone, Debug, Serialize, Deserialize, Hash, PartialEq, Eq)]
pub enum Fault {
    /// random well-formed pair of G1 elements
    Garbage(u64),
    /// honest reply with sigma2 shifted by sigma1*(y_i*delta): a valid blind signature on the
    /// message with slot i (0 cid, 1 tag/nonce, 2 lock, 3 cb, 4 mb) altered by delta
    Shift(u8, ScSpec),
    /// blind signature on the *other* commitment of the same proof (pay-token-type reply where a
    /// closing signature is expected and vice versa)
    OtherType,
    /// the right commitment signed under another merchant's key
    OtherKey,
    /// a reply recorded earlier (other session / channel / payment)
    Replay(u16),
    /// the all-identity signature, produced in memory by blind-signing with u = 0
    Identity,
    /// (sigma1, identity)
    S2Identity,
}

impl Fault {
    pub fn label(&self) -> &'static str {
        match self {
            Fault::Garbage(_) => "garbage",
            Fault::Shift(..) => "valid-signature-on-altered-state",
            Fault::OtherType => "other-reply-type",
            Fault::OtherKey => "other-key",
            Fault::Replay(_) => "replayed",
            Fault::Identity => "identity-signature",
            Fault::S2Identity => "sigma2-identity",
        }
    }
}

pub fn fault() -> impl Strategy<Value = Fault> {
    prop_oneof![
        2 => any::<u64>().prop_map(Fault::Garbage),
        5 => (0u8..5, crate::props::common::delta_spec()).prop_map(|(i, d)| Fault::Shift(i, d)),
        2 => Just(Fault::OtherType),
        2 => Just(Fault::OtherKey),
        3 => any::<u16>().prop_map(Fault::Replay),
        1 => Just(Fault::Identity),
        1 => Just(Fault::S2Identity),
    ]
}

pub fn faults(max: usize, on: bool) -> BoxedStrategy<Vec<Fault>> {
    if on {
        prop_oneof![
            3 => Just(Vec::new()),
            3 => proptest::collection::vec(fault(), 1..=max),
        ]
        .boxed()
    } else {
        Just(Vec::new()).boxed()
    }
}

#[derive(Clone, Copy, Debug, Serialize, Deserialize, Hash, PartialEq, Eq)]
pub enum PayStop {
    /// customer stops after `start` (merchant may or may not have replied) and closes from Started
    AfterStart,
    /// customer stops after `lock` and closes from Locked
    AfterLock,
}

/// Candidates offered to `complete_payment` before the right (pair, blinding factor).
#[derive(Clone, Debug, Serialize, Deserialize, Hash, PartialEq, Eq)]
pub enum RevFault {
    /// a pair recorded from another state / channel / session
    OtherPair(u16),
    /// right pair, blinding factor shifted
    BfShift(ScSpec),
    /// right pair, blinding factor of another payment
    OtherBf(u16),
    /// right pair, random blinding factor
    RandomBf(u64),
    /// fresh pair with the right blinding factor
    FreshPair(u64),
    /// both from another payment
    BothOther(u16),
}

pub fn rev_fault() -> impl Strategy<Value = RevFault> {
    prop_oneof![
        2 => any::<u16>().prop_map(RevFault::OtherPair),
        2 => crate::props::common::delta_spec().prop_map(RevFault::BfShift),
        1 => any::<u16>().prop_map(RevFault::OtherBf),
        1 => any::<u64>().prop_map(RevFault::RandomBf),
        2 => any::<u64>().prop_map(RevFault::FreshPair),
        1 => any::<u16>().prop_map(RevFault::BothOther),
    ]
}

#[derive(Clone, Debug, Serialize, Deserialize)]
pub struct Pay {
    pub amount: AmtSel,
    pub faults_close: Vec<Fault>,
    pub faults_token: Vec<Fault>,
    pub rev_faults: Vec<RevFault>,
    pub stop: Option<PayStop>,
    /// 0 = none; k > 0: the step's randomness is re-keyed (deterministically) until the revocation
    /// pair drawn for the new state has index >= k (its first k candidate digests are non-canonical)
    #[serde(default)]
    pub idx_tune: u8,
}

#[derive(Clone, Copy, Debug, Serialize, Deserialize, Hash, PartialEq, Eq)]
pub enum EstStop {
    /// run the payments; close from Ready at the end (if not stopped inside a payment)
    None,
    /// stop and close from Inactive
    Inactive,
}

#[derive(Clone, Debug, Serialize, Deserialize)]
pub struct Hist {
    pub merchant: u8,
    pub cb: BalSel,
    pub mb: BalSel,
    pub ctx: u16,
    pub est_faults_close: Vec<Fault>,
    pub est_faults_token: Vec<Fault>,
    pub est_stop: EstStop,
    pub pays: Vec<Pay>,
    pub seed: u64,
    /// as `Pay::idx_tune`, for the revocation pair of the initial state
    #[serde(default)]
    pub idx_tune: u8,
}

/// Target revocation-pair indices: mostly untouched randomness; otherwise a minimum index spread over
/// 1..=12 (index k occurs naturally with probability 0.45 * 0.55^k: 8 -> 0.4 %, 12 -> 0.03 %).
fn idx_tune() -> impl Strategy<Value = u8> {
    prop_oneof![
        4 => Just(0u8),
        1 => 1u8..=7,
        2 => 8u8..=12,
    ]
}

/// First index i such that SHA3-256(secret || i) is a canonical scalar (reference for RevocationPair::new).
pub fn first_canonical_index(secret: &Scalar) -> Option<u8> {
    for i in 0..=255u8 {
        let d = refmath::sha3(&[&secret.to_bytes(), &[i]]);
        if bool::from(Scalar::from_bytes(&d).is_some()) {
            return Some(i);
        }
    }
    None
}

/// Offset (in the byte stream of the caller's generator) of the 64-byte draw that becomes the
/// revocation secret of the state created by `Requested::new` (which = 0) / `Ready::start` (which = 1).
/// Found empirically: the operation is run once under a recording generator and the secret is read
/// from the resulting state image; None if no draw maps to it (layout changed -> no tuning).
fn rev_draw_offset(which: usize) -> Option<usize> {
    use std::sync::OnceLock;
    static OFF: OnceLock<[Option<usize>; 2]> = OnceLock::new();
    OFF.get_or_init(|| {
        let m = merchant(0);
        let cid = channel_id(&m, 0x1dea);
        let ctx = context(1);
        let find = |img: &Image, log: &[(usize, usize)], seed: u64, prefer_last: bool| -> Option<usize> {
            let secrets: Vec<Vec<u8>> = img.atoms.iter().enumerate().filter(|(_, a)| a.path.ends_with("secret") && a.len == 32).map(|(i, _)| img.at(i).to_vec()).collect();
            let mut hits = Vec::new();
            for (off, len) in log.iter().filter(|d| d.1 == 64) {
                let mut base = crate::engine::rng::ScriptedRng::new(seed, vec![]);
                let mut skip = vec![0u8; *off];
                rand_core::RngCore::fill_bytes(&mut base, &mut skip);
                let mut w = [0u8; 64];
                rand_core::RngCore::fill_bytes(&mut base, &mut w);
                let _ = len;
                let sc = Scalar::from_bytes_wide(&w).to_bytes().to_vec();
                if secrets.iter().any(|s| *s == sc) {
                    hits.push(*off);
                }
            }
            if prefer_last { hits.last().cloned() } else { hits.first().cloned() }
        };
        let mut r0 = crate::engine::rng::ScriptedRng::new(77, vec![]);
        let (req, proof) = Requested::new(&mut r0, &m.cust, cid, mbal(5), cbal(9), &ctx);
        let o0 = find(&Image::must(&req), &r0.log, 77, false);
        // a Ready state to start a payment from
        let o1 = (|| {
            let (closing, vbs) = m.cfg.initialize(&mut rng(1), &cid, cbal(9), mbal(5), proof, &ctx)?;
            let inactive = req.complete(closing, &m.cust).ok()?;
            let token = m.cfg.activate(&mut rng(2), vbs);
            let ready = inactive.activate(token, &m.cust).ok()?;
            let old_secrets: Vec<Vec<u8>> = {
                let img = Image::must(&ready);
                img.atoms.iter().enumerate().filter(|(_, a)| a.path.ends_with("secret") && a.len == 32).map(|(i, _)| img.at(i).to_vec()).collect()
            };
            let mut r1 = crate::engine::rng::ScriptedRng::new(78, vec![]);
            let (started, _) = ready.start(&mut r1, PaymentAmount::pay_merchant(1).ok()?, &ctx, &m.cust).ok()?;
            let mut img = Image::must(&started);
            // only the new state's secret: drop atoms equal to the old state's
            let keep: Vec<usize> = img.atoms.iter().enumerate().filter(|(i, a)| a.path.ends_with("secret") && a.len == 32 && !old_secrets.contains(&img.at(*i).to_vec())).map(|(i, _)| i).collect();
            let atoms: Vec<_> = keep.iter().map(|i| img.atoms[*i].clone()).collect();
            img.atoms = atoms;
            find(&img, &r1.log, 78, false)
        })();
        [o0, o1]
    })[which]
}

/// Re-key `s` until the revocation secret drawn at `rev_draw_offset(which)` has first canonical index >= k.
fn tune_seed(s: u64, which: usize, k: u8) -> u64 {
    if k == 0 {
        return s;
    }
    let Some(off) = rev_draw_offset(which) else { return s };
    for j in 0u64..400_000 {
        let c = s ^ j.wrapping_mul(0xD6E8_FEB8_6659_FD93);
        let mut g = rng(c);
        let mut skip = vec![0u8; off];
        rand_core::RngCore::fill_bytes(&mut g, &mut skip);
        let mut w = [0u8; 64];
        rand_core::RngCore::fill_bytes(&mut g, &mut w);
        let sec = Scalar::from_bytes_wide(&w);
        if first_canonical_index(&sec).map(|i| i >= k).unwrap_or(false) {
            return c;
        }
    }
    s
}

/// Index byte(s) of the revocation secrets inside a state image (for the class histogram).
fn rev_indices(img: &Image) -> Vec<u8> {
    img.atoms.iter().enumerate().filter(|(_, a)| a.kind == Kind::U8 && a.path.ends_with("index")).map(|(i, _)| img.at(i)[0]).collect()
}

#[derive(Clone, Copy)]
pub struct GenOpts {
    pub max_pays: usize,
    pub faults: bool,
    pub rev_faults: bool,
    pub stops: bool,
    pub merchants: u8,
}

pub fn hist(g: GenOpts) -> impl Strategy<Value = Hist> {
    let pay = (
        amt_sel(),
        faults(3, g.faults),
        faults(3, g.faults),
        if g.rev_faults { proptest::collection::vec(rev_fault(), 0..4).boxed() } else { Just(Vec::new()).boxed() },
        if g.stops {
            prop_oneof![12 => Just(None), 1 => Just(Some(PayStop::AfterStart)), 1 => Just(Some(PayStop::AfterLock))].boxed()
        } else {
            Just(None).boxed()
        },
        idx_tune(),
    )
        .prop_map(|(amount, faults_close, faults_token, rev_faults, stop, idx_tune)| Pay { amount, faults_close, faults_token, rev_faults, stop, idx_tune });
    (
        0..g.merchants.max(1),
        bal_sel(),
        bal_sel(),
        any::<u16>(),
        faults(3, g.faults),
        faults(3, g.faults),
        if g.stops { prop_oneof![10 => Just(EstStop::None), 1 => Just(EstStop::Inactive)].boxed() } else { Just(EstStop::None).boxed() },
        proptest::collection::vec(pay, 0..=g.max_pays),
        any::<u64>(),
        idx_tune(),
    )
        .prop_map(|(merchant, cb, mb, ctx, est_faults_close, est_faults_token, est_stop, pays, seed, idx_tune)| Hist {
            merchant,
            cb,
            mb,
            ctx,
            est_faults_close,
            est_faults_token,
            est_stop,
            pays,
            seed,
            idx_tune,
        })
}

/// What the interpreter checks.
#[derive(Clone, Copy)]
pub struct Opts {
    pub prop: &'static str,
    /// C03: close validity on a copy after every step, inertness of refused replies
    pub close_check: bool,
    /// C20: store/restore twin at every customer step
    pub twin: bool,
    /// C14: record the merchant's view and check reuse / secrets
    pub view: bool,
    /// C05: offer wrong revocation candidates to complete_payment
    pub c05: bool,
}

#[derive(Default)]
pub struct Msg {
    pub from_customer: bool,
    pub kind: &'static str,
    pub atoms: Vec<Vec<u8>>,
}

/// State shared by the histories of one case (several channels, possibly several merchants).
#[derive(Default)]
pub struct World {
    pub pool_closing: Vec<Vec<u8>>, // recorded blind closing signatures (96-byte images)
    pub pool_tokens: Vec<Vec<u8>>,  // recorded blind pay tokens
    pub pool_pairs: Vec<(Vec<u8>, Vec<u8>)>, // recorded (revocation pair image, blinding factor image)
    pub disclosed_locks: HashSet<Vec<u8>>,
    pub view: Vec<Msg>,
    pub public_atoms: HashSet<Vec<u8>>,
    pub public_for: HashSet<u64>,
    pub stats: HashMap<&'static str, u64>,
}

impl World {
    fn bump(&mut self, k: &'static str) {
        *self.stats.entry(k).or_default() += 1;
    }
}

fn atoms_of(img: &Image) -> Vec<Vec<u8>> {
    (0..img.atoms.len())
        .filter(|&i| matches!(img.atoms[i].kind, Kind::G1 | Kind::G2 | Kind::B32))
        .map(|i| img.at(i).to_vec())
        .collect()
}

fn fail(o: &Opts, what: &str, msg: String) -> Fail {
    Fail::new(format!("{}/{}", o.prop, what), msg)
}

struct Chan<'a> {
    o: Opts,
    rec: &'a Rec,
    m: std::sync::Arc<Merchant>,
    cid: zkabacus_crypto::ChannelId,
    cid_bytes: Vec<u8>,
    ctx: zkabacus_crypto::Context,
    seed: u64,
    step: u64,
    cb: u64,
    mb: u64,
}

impl<'a> Chan<'a> {
    fn next_seed(&mut self) -> u64 {
        self.step += 1;
        self.seed ^ self.step.wrapping_mul(0x9e37_79b9_7f4a_7c15)
    }

    /// C14: add a message to the view; for customer messages check reuse and secrets first.
    fn send(&self, w: &mut World, from_customer: bool, kind: &'static str, img: &Image, secrets: &[(String, Vec<u8>)]) -> R {
        if !self.o.view {
            return Ok(());
        }
        self.send_atoms(w, from_customer, kind, atoms_of(img), secrets)
    }

    fn send_atoms(&self, w: &mut World, from_customer: bool, kind: &'static str, atoms: Vec<Vec<u8>>, secrets: &[(String, Vec<u8>)]) -> R {
        if !self.o.view {
            return Ok(());
        }
        if from_customer {
            // a group element never occurs twice inside one message either (response scalars of linked
            // slots coincide by design, group elements do not)
            for (i, a) in atoms.iter().enumerate() {
                if (a.len() == 48 || a.len() == 96) && atoms[..i].iter().any(|e| e == a) {
                    self.rec.eval(1);
                    return Err(fail(&self.o, &format!("message-repeats-a-group-element/{}", kind), format!("{} contains the same group element twice", kind)));
                }
            }
            for a in &atoms {
                if *a == self.cid_bytes {
                    continue; // the channel id is disclosed by design
                }
                self.rec.eval(1);
                if w.public_atoms.contains(a) {
                    return Err(fail(&self.o, "message-reuses-public-parameter", format!("{} contains an element equal to a public parameter element", kind)));
                }
                for (k, earlier) in w.view.iter().enumerate() {
                    if earlier.atoms.iter().any(|e| e == a) {
                        return Err(fail(
                            &self.o,
                            &format!("message-reuses-earlier-value/{}-in-{}", earlier.kind, kind),
                            format!("{} contains a value already present in message #{} ({}, {})", kind, k, earlier.kind, if earlier.from_customer { "customer->merchant" } else { "merchant->customer" }),
                        ));
                    }
                }
                for (name, s) in secrets {
                    if s == a {
                        return Err(fail(&self.o, &format!("secret-in-message/{}", name.rsplit('.').next().unwrap_or(name)), format!("{} contains the secret '{}' held in the customer state", kind, name)));
                    }
                }
            }
        }
        w.view.push(Msg { from_customer, kind, atoms });
        Ok(())
    }

    /// Secrets of a customer stage image: every scalar / element atom except those listed.
    fn secrets(img: &Image, except: &[&str]) -> Vec<(String, Vec<u8>)> {
        let mut v = Vec::new();
        for (i, a) in img.atoms.iter().enumerate() {
            if !matches!(a.kind, Kind::G1 | Kind::G2 | Kind::B32) {
                continue;
            }
            if a.path.ends_with("channel_id") || except.iter().any(|e| a.path == *e) {
                continue;
            }
            v.push((a.path.clone(), img.at(i).to_vec()));
        }
        // hidden balances as scalars
        for a in img.atoms.iter().filter(|a| a.kind == Kind::U64) {
            let val = u64::from_le_bytes(img.bytes[a.off..a.off + 8].try_into().unwrap());
            if val > 1 {
                v.push((format!("{}(as scalar)", a.path), u64_scalar(val).to_bytes().to_vec()));
            }
        }
        v
    }

    /// C03/C04: the closing message a copy of the state yields is valid for the ledger's stage.
    fn check_close(&mut self, w: &World, stage: &'static str, cm: ClosingMessage, exp_cb: u64, exp_mb: u64) -> R {
        let img = Image::must(&cm);
        self.rec.eval(1);
        ensure!(
            cm.channel_id().to_bytes().to_vec() == self.cid_bytes,
            format!("{}/close-message-wrong-channel", self.o.prop),
            "closing message from {} carries another channel id",
            stage
        );
        let (gcb, gmb) = (cm.customer_balance().into_inner(), cm.merchant_balance().into_inner());
        if (gcb, gmb) != (exp_cb, exp_mb) {
            return Err(fail(&self.o, &format!("close-balances-differ-from-ledger/{}", stage), format!("closing message from {} has balances ({}, {}), ledger says ({}, {})", stage, gcb, gmb, exp_cb, exp_mb))
                .obs(format!("({}, {})", gcb, gmb), format!("({}, {})", exp_cb, exp_mb)));
        }
        let lock = cm.revocation_lock().as_bytes().to_vec();
        ensure!(
            !w.disclosed_locks.contains(&lock),
            format!("{}/close-on-revoked-state/{}", self.o.prop, stage),
            "closing message from {} uses a revocation lock already disclosed in a lock message",
            stage
        );
        // reference check of the signature on (cid, CLOSE, lock, cb, mb)
        let msg = [
            cid_scalar(cm.channel_id()),
            zkabacus_crypto::CLOSE_SCALAR,
            wire::sc(&lock).unwrap(),
            u64_scalar(gcb),
            u64_scalar(gmb),
        ];
        let s1 = img.g1("close_signature.sigma1");
        let s2 = img.g1("close_signature.sigma2");
        let reference = ps_verify(&self.m.pk, &msg, &s1, &s2);
        let (sig, cs) = cm.into_parts();
        let lib = is_verified(self.m.cfg.check_close_signature(sig, &cs));
        ensure!(
            lib && reference,
            format!("{}/close-message-invalid/{}", self.o.prop, stage),
            "closing message from {} is not accepted (merchant check: {}, reference signature check: {})",
            stage,
            lib,
            reference
        );
        self.rec.class(&format!("close-check/{}", stage));
        Ok(())
    }

    /// Build a faulty reply. `c_right` is the commitment the honest reply signs, `c_other` the
    /// other commitment of the same proof. Returns the 96-byte image, or None for the in-memory
    /// identity fault (handled by the caller).
    fn fault_bytes(&mut self, w: &World, f: &Fault, honest: &[u8], c_right: &G1Projective, c_other: &G1Projective, expecting_close: bool) -> Option<Vec<u8>> {
        let s = self.next_seed();
        Some(match f {
            Fault::Garbage(x) => {
                let a = G1Projective::generator() * rand_nonzero_scalar(*x ^ s);
                let b = G1Projective::generator() * rand_scalar(x.wrapping_add(1) ^ s);
                sig_bytes(&a.to_affine(), &b.to_affine())
            }
            Fault::Shift(i, d) => {
                let s1 = G1Projective::from(wire::g1(&honest[..48]).unwrap());
                let s2 = G1Projective::from(wire::g1(&honest[48..]).unwrap());
                let y = self.m.sk.ys[*i as usize % 5];
                let d = crate::props::common::nonzero(d);
                sig_bytes(&s1.to_affine(), &(s2 + s1 * (y * d)).to_affine())
            }
            Fault::OtherType => {
                let (a, b) = blind_sign_ref(&self.m, c_other, &fresh_u(s));
                sig_bytes(&a, &b)
            }
            Fault::OtherKey => {
                let other = merchant(self.m.seed + 500);
                let (a, b) = blind_sign_ref(&other, c_right, &fresh_u(s));
                sig_bytes(&a, &b)
            }
            Fault::Replay(sel) => {
                // any recorded reply of either type, from any earlier session / channel / payment
                let pool: Vec<&Vec<u8>> = w.pool_closing.iter().chain(w.pool_tokens.iter()).filter(|b| b.as_slice() != honest).collect();
                if pool.is_empty() {
                    let (a, b) = blind_sign_ref(&self.m, &(c_right + G1Projective::generator()), &fresh_u(s));
                    sig_bytes(&a, &b)
                } else {
                    pool[pick_idx(*sel, pool.len())].clone()
                }
            }
            Fault::S2Identity => sig_bytes(&wire::g1(&honest[..48]).unwrap(), &G1Affine::identity()),
            Fault::Identity => {
                let _ = expecting_close;
                return None;
            }
        })
    }
}

fn zero_rng(seed: u64) -> ScriptedRng {
    ScriptedRng::new(seed, vec![Window { off: 0, len: 64, pat: Pattern::Zero }])
}

/// Offer a reply to a customer stage. Returns the transition result; checks refusal inertness
/// (C03) and twin agreement (C20) as enabled.
#[allow(clippy::too_many_arguments)]
fn offer<S, Rp, Out>(
    ch: &mut Chan,
    what: &str,
    st: S,
    reply: Rp,
    reply_twin: Option<Rp>,
    f: &dyn Fn(S, Rp) -> Result<Out, S>,
    out_bytes: &dyn Fn(&Out) -> Vec<u8>,
    expect_accept: bool,
    fault_label: &str,
) -> Result<Result<Out, S>, Fail>
where
    S: Serialize + DeserializeOwned,
{
    let before = wire::enc(&st);
    let twin_res = if ch.o.twin {
        match reply_twin {
            Some(rt) => {
                let twin: S = wire::dec(&before).map_err(|e| fail(&ch.o, &format!("stored-state-undecodable/{}", what), format!("a stored {} state does not decode: {}", what, e)))?;
                ensure!(wire::enc(&twin) == before, format!("{}/restored-state-encodes-differently/{}", ch.o.prop, what), "decode(encode(state)) re-encodes to different bytes");
                Some(f(twin, rt))
            }
            None => None,
        }
    } else {
        None
    };
    let res = f(st, reply);
    ch.rec.eval(1);
    match (&res, expect_accept) {
        (Ok(_), true) => {}
        (Err(_), true) => return Err(fail(&ch.o, &format!("honest-reply-refused/{}", what), format!("the honest merchant reply was refused at {}", what))),
        (Ok(_), false) => {
            return Err(fail(&ch.o, &format!("invalid-reply-accepted/{}/{}", what, fault_label), format!("an invalid merchant reply ({}) was accepted at {}", fault_label, what)).obs("accepted", "refused"))
        }
        (Err(s2), false) => {
            if wire::enc(s2) != before {
                return Err(fail(&ch.o, &format!("refused-reply-changed-state/{}", what), format!("customer state changed after refusing a {} reply at {}", fault_label, what)));
            }
            ch.rec.class(&format!("refused/{}/{}", what, fault_label));
        }
    }
    if let Some(tr) = twin_res {
        ch.rec.eval(1);
        let same = match (&res, &tr) {
            (Ok(a), Ok(b)) => out_bytes(a) == out_bytes(b),
            (Err(a), Err(b)) => wire::enc(a) == wire::enc(b),
            _ => false,
        };
        if !same {
            return Err(fail(&ch.o, &format!("restored-state-diverges/{}", what), format!("a state restored from storage reacts differently to the same {} reply at {}", if expect_accept { "honest" } else { fault_label }, what)));
        }
        ch.rec.class(&format!("twin/{}/{}", what, if expect_accept { "accepted" } else { "refused" }));
    }
    Ok(res)
}

fn g1_atom(img: &Image, path: &str) -> G1Projective {
    G1Projective::from(img.g1(path))
}

/// Run one channel history. Returns a JSON summary of what happened (for samples).
pub fn run_hist(h: &Hist, o: Opts, w: &mut World, rec: &Rec) -> Result<Value, Fail> {
    let m = merchant(h.merchant as u64);
    let cid = channel_id(&m, h.seed);
    let mut ch = Chan {
        o,
        rec,
        cid_bytes: cid.to_bytes().to_vec(),
        cid,
        ctx: context(h.ctx as u64),
        seed: h.seed,
        step: 0,
        cb: h.cb.get(),
        mb: h.mb.get(),
        m: m.clone(),
    };
    let cfg = &m.cust;
    if o.view && w.public_for.insert(m.seed) {
        for img in [&m.kimg, &m.range_img, &Image::must(m.cfg.revocation_commitment_parameters())] {
            for (i, a) in img.atoms.iter().enumerate() {
                if matches!(a.kind, Kind::G1 | Kind::G2) && !a.path.starts_with("sk.") {
                    w.public_atoms.insert(img.at(i).to_vec());
                }
            }
        }
    }
    let mut trace: Vec<String> = Vec::new();

    // ---------------------------------------------------------------- establish: Requested
    let s = tune_seed(ch.next_seed(), 0, h.idx_tune);
    let (req, proof) = Requested::new(&mut rng(s), cfg, cid, mbal(ch.mb), cbal(ch.cb), &ch.ctx);
    for i in rev_indices(&Image::must(&req)) {
        rec.class(&format!("revocation-index/initial-state/{}", if i >= 8 { ">=8".to_string() } else { i.to_string() }));
        if h.idx_tune > 0 && rev_draw_offset(0).is_some() {
            ensure!(i >= h.idx_tune, "harness/index-tuning-missed", "initial revocation pair has index {} < tuned minimum {}", i, h.idx_tune);
        }
    }
    if o.twin {
        // Requested::new is a pure function of its inputs and randomness
        let (req2, proof2) = Requested::new(&mut rng(s), cfg, cid, mbal(ch.mb), cbal(ch.cb), &ch.ctx);
        ensure!(wire::enc(&req) == wire::enc(&req2) && wire::enc(&proof) == wire::enc(&proof2), format!("{}/nondeterministic/requested", o.prop), "Requested::new differs under identical randomness");
    }
    ensure!(
        req.customer_balance().into_inner() == ch.cb && req.merchant_balance().into_inner() == ch.mb && req.channel_id().to_bytes().to_vec() == ch.cid_bytes,
        format!("{}/stage-balances-differ-from-ledger/requested", o.prop),
        "Requested reports balances ({}, {}), ledger says ({}, {})",
        req.customer_balance().into_inner(),
        req.merchant_balance().into_inner(),
        ch.cb,
        ch.mb
    );
    let pimg = Image::must(&proof);
    let rimg = Image::must(&req);
    ch.send(w, true, "establish-proof", &pimg, &Chan::secrets(&rimg, &[]))?;
    let c_state = g1_atom(&pimg, "state_proof.commitment_proof.commitment");
    let c_close = g1_atom(&pimg, "close_state_proof.commitment_proof.commitment");

    let s = ch.next_seed();
    let proof_copy: EstablishProof = copy(&proof);
    let Some((closing, vbs)) = m.cfg.initialize(&mut rng(s), &cid, cbal(ch.cb), mbal(ch.mb), proof, &ch.ctx) else {
        return Err(fail(&o, "honest-establish-proof-rejected", format!("merchant rejected an honest establish proof (cb={}, mb={})", ch.cb, ch.mb)));
    };
    let closing_bytes = wire::enc(&closing);
    ch.send(w, false, "closing-signature(establish)", &Image::must(&closing), &[])?;

    // faulty closing signatures first
    let mut req = req;
    for f in &h.est_faults_close {
        let (bad, bad_twin): (ClosingSignature, Option<ClosingSignature>) = match ch.fault_bytes(w, f, &closing_bytes, &c_close, &c_state, true) {
            Some(b) => (wire::dec(&b).map_err(|e| Fail::new("harness/fault-undecodable", e))?, Some(wire::dec(&b).unwrap())),
            None => {
                let sz = ch.next_seed();
                let (sig, _) = m.cfg.initialize(&mut zero_rng(sz), &cid, cbal(ch.cb), mbal(ch.mb), copy(&proof_copy), &ch.ctx).ok_or_else(|| Fail::new("harness/identity-fault", "initialize refused"))?;
                (sig, None)
            }
        };
        match offer(&mut ch, "complete", req, bad, bad_twin, &|st: Requested, r| st.complete(r, cfg), &|o: &Inactive| wire::enc(o), false, f.label())? {
            Err(st) => req = st,
            Ok(_) => unreachable!(),
        }
        w.bump("refused-replies");
    }
    let inactive = match offer(&mut ch, "complete", req, closing, Some(wire::dec(&closing_bytes).unwrap()), &|st: Requested, r| st.complete(r, cfg), &|o: &Inactive| wire::enc(o), true, "")? {
        Ok(i) => i,
        Err(_) => unreachable!(),
    };
    w.pool_closing.push(closing_bytes);
    trace.push("inactive".into());
    ensure!(
        inactive.customer_balance().into_inner() == ch.cb && inactive.merchant_balance().into_inner() == ch.mb,
        format!("{}/stage-balances-differ-from-ledger/inactive", o.prop),
        "Inactive reports balances differing from the ledger"
    );
    if o.close_check {
        let sc = ch.next_seed();
        ch.check_close(w, "inactive", copy(&inactive).close(&mut rng(sc)), ch.cb, ch.mb)?;
    }
    if h.est_stop == EstStop::Inactive {
        let sc = ch.next_seed();
        let iimg = Image::must(&inactive);
        let cm = inactive.close(&mut rng(sc));
        ch.send(w, true, "closing-message", &Image::must(&cm), &Chan::secrets(&iimg, &["state.revocation_pair.lock"]))?;
        ch.check_close(w, "inactive", cm, ch.cb, ch.mb)?;
        trace.push("closed-from-inactive".into());
        return Ok(json!({"trace": trace, "cb": ch.cb, "mb": ch.mb}));
    }

    // ---------------------------------------------------------------- establish: activate
    let s = ch.next_seed();
    let token = m.cfg.activate(&mut rng(s), vbs);
    let token_bytes = wire::enc(&token);
    ch.send(w, false, "pay-token(establish)", &Image::must(&token), &[])?;
    let mut inactive = inactive;
    for f in &h.est_faults_token {
        let (bad, bad_twin): (PayToken, Option<PayToken>) = match ch.fault_bytes(w, f, &token_bytes, &c_state, &c_close, false) {
            Some(b) => {
                let t: PayToken = wire::dec(&b).map_err(|e| Fail::new("harness/fault-undecodable", e))?;
                (t, Some(t))
            }
            None => {
                let sz = ch.next_seed();
                let (_, vbs2) = m.cfg.initialize(&mut rng(sz), &cid, cbal(ch.cb), mbal(ch.mb), copy(&proof_copy), &ch.ctx).ok_or_else(|| Fail::new("harness/identity-fault", "initialize refused"))?;
                (m.cfg.activate(&mut zero_rng(sz), vbs2), None)
            }
        };
        match offer(&mut ch, "activate", inactive, bad, bad_twin, &|st: Inactive, r| st.activate(r, cfg), &|o: &Ready| wire::enc(o), false, f.label())? {
            Err(st) => inactive = st,
            Ok(_) => unreachable!(),
        }
        w.bump("refused-replies");
        if o.close_check {
            let sc = ch.next_seed();
            ch.check_close(w, "inactive", copy(&inactive).close(&mut rng(sc)), ch.cb, ch.mb)?;
        }
    }
    let mut ready = match offer(&mut ch, "activate", inactive, token, Some(token), &|st: Inactive, r| st.activate(r, cfg), &|o: &Ready| wire::enc(o), true, "")? {
        Ok(r) => r,
        Err(_) => unreachable!(),
    };
    w.pool_tokens.push(token_bytes);
    trace.push("ready".into());

    // ---------------------------------------------------------------- payments
    let mut completed = 0usize;
    let mut refused_amounts = 0usize;
    for (pi, p) in h.pays.iter().enumerate() {
        ensure!(
            ready.customer_balance().into_inner() == ch.cb && ready.merchant_balance().into_inner() == ch.mb,
            format!("{}/stage-balances-differ-from-ledger/ready", o.prop),
            "Ready reports ({}, {}), ledger says ({}, {})",
            ready.customer_balance().into_inner(),
            ready.merchant_balance().into_inner(),
            ch.cb,
            ch.mb
        );
        if o.close_check {
            let sc = ch.next_seed();
            ch.check_close(w, "ready", copy(&ready).close(&mut rng(sc)), ch.cb, ch.mb)?;
        }
        let amt = p.amount.get(ch.cb, ch.mb);
        let amount = if amt >= 0 { PaymentAmount::pay_merchant(amt as u64) } else { PaymentAmount::pay_customer((-amt) as u64) };
        let Ok(amount) = amount else {
            ensure!(amt.unsigned_abs() > MAXB as u128, format!("{}/amount-constructor-refused-representable", o.prop), "amount constructor refused {}", amt);
            rec.class("amount/constructor-refused");
            continue;
        };
        ensure!(amount.to_i64() as i128 == amt, format!("{}/amount-constructor-value", o.prop), "amount constructor returned {} for {}", amount.to_i64(), amt);
        let new_cb = ch.cb as i128 - amt;
        let new_mb = ch.mb as i128 + amt;
        let in_range = new_cb >= 0 && new_cb <= MAXB as i128 && new_mb >= 0 && new_mb <= MAXB as i128;
        rec.class(&format!("amount/{}/{}", p.amount.label(), if in_range { "in-range" } else { "out-of-range" }));
        if in_range && new_cb == new_mb {
            rec.class("payment-leaves-equal-balances");
        }

        let s = tune_seed(ch.next_seed(), 1, p.idx_tune);
        let ready_bytes = wire::enc(&ready);
        let ready_img = Image::must(&ready);
        let twin_start = if o.twin {
            let tw: Ready = wire::dec(&ready_bytes).map_err(|e| fail(&o, "stored-state-undecodable/ready", e))?;
            Some(tw.start(&mut rng(s), amount, &ch.ctx, cfg))
        } else {
            None
        };
        let started_res = ready.start(&mut rng(s), amount, &ch.ctx, cfg);
        rec.eval(1);
        if let Some(tw) = &twin_start {
            let same = match (&started_res, tw) {
                (Ok((a, ma)), Ok((b, mb_))) => wire::enc(a) == wire::enc(b) && wire::enc(&ma.nonce) == wire::enc(&mb_.nonce) && wire::enc(&ma.pay_proof) == wire::enc(&mb_.pay_proof),
                (Err((a, ea)), Err((b, eb))) => wire::enc(a) == wire::enc(b) && wire::enc(ea) == wire::enc(eb),
                _ => false,
            };
            ensure!(same, format!("{}/restored-state-diverges/start", o.prop), "a restored Ready state produces a different start message / outcome under identical randomness");
            rec.class("twin/start");
        }
        let (started, start_msg) = match started_res {
            Err((r, e)) => {
                if in_range {
                    return Err(fail(&o, "in-range-payment-refused", format!("start refused amount {} on balances ({}, {}): {:?}", amt, ch.cb, ch.mb, e)));
                }
                ensure!(wire::enc(&r) == ready_bytes, format!("{}/refused-payment-changed-state", o.prop), "Ready state changed after a refused start");
                // the property allows either error; the finer mapping is recorded as a statistic
                let negative = new_cb < 0 || new_mb < 0;
                rec.note(
                    match (e, negative) {
                        (Error::InsufficientFunds, true) => "refusal/negative=>InsufficientFunds",
                        (Error::AmountTooLarge(_), false) => "refusal/above=>AmountTooLarge",
                        (Error::InsufficientFunds, false) => "refusal/above=>InsufficientFunds",
                        (Error::AmountTooLarge(_), true) => "refusal/negative=>AmountTooLarge",
                    },
                    1,
                );
                ready = r;
                refused_amounts += 1;
                trace.push(format!("pay#{} {} refused", pi, p.amount.label()));
                continue;
            }
            Ok(x) => {
                if let Some(i) = rev_indices(&Image::must(&x.0)).into_iter().max() {
                    rec.class(&format!("revocation-index/payment-states(max)/{}", if i >= 8 { ">=8".to_string() } else { i.to_string() }));
                    if p.idx_tune > 0 && rev_draw_offset(1).is_some() {
                        ensure!(i >= p.idx_tune, "harness/index-tuning-missed", "revocation pair of the new state has index {} < tuned minimum {}", i, p.idx_tune);
                    }
                }
                x
            }
        };
        if !in_range {
            return Err(fail(&o, "out-of-range-payment-started", format!("start accepted amount {} on balances ({}, {}) although the result leaves [0, 2^63-1]", amt, ch.cb, ch.mb)));
        }
        let (new_cb, new_mb) = (new_cb as u64, new_mb as u64);
        ensure!(
            started.customer_balance().into_inner() == ch.cb && started.merchant_balance().into_inner() == ch.mb,
            format!("{}/stage-balances-differ-from-ledger/started", o.prop),
            "Started reports ({}, {}), ledger (pre-payment) says ({}, {})",
            started.customer_balance().into_inner(),
            started.merchant_balance().into_inner(),
            ch.cb,
            ch.mb
        );
        let simg = Image::must(&started);
        let nonce_img = Image::must(&start_msg.nonce);
        let ppimg = Image::must(&start_msg.pay_proof);
        if o.view {
            let mut atoms = atoms_of(&nonce_img);
            atoms.extend(atoms_of(&ppimg));
            let mut sct = Chan::secrets(&simg, &["old_state.nonce"]);
            sct.extend(Chan::secrets(&ready_img, &["state.nonce"]));
            ch.send_atoms(w, true, "start-message", atoms, &sct)?;
        }
        if o.close_check {
            let sc = ch.next_seed();
            ch.check_close(w, "started", copy(&started).close(&mut rng(sc)), ch.cb, ch.mb)?;
        }
        let c_state = g1_atom(&ppimg, "state_proof.commitment_proof.commitment");
        let c_close = g1_atom(&ppimg, "close_state_proof.commitment_proof.commitment");
        let nonce = start_msg.nonce;
        let pay_proof_copy: PayProof = copy(&start_msg.pay_proof);

        let s = ch.next_seed();
        let Some((unrevoked, closing)) = m.cfg.allow_payment(&mut rng(s), amount, &nonce, start_msg.pay_proof, &ch.ctx) else {
            return Err(fail(&o, "honest-pay-proof-rejected", format!("merchant rejected an honest pay proof (amount {}, balances ({}, {}))", amt, ch.cb, ch.mb)));
        };
        let closing_bytes = wire::enc(&closing);
        ch.send(w, false, "closing-signature(pay)", &Image::must(&closing), &[])?;

        if p.stop == Some(PayStop::AfterStart) {
            // the customer abandons the payment and closes on the previous balances
            let sc = ch.next_seed();
            let cm = started.close(&mut rng(sc));
            ch.send(w, true, "closing-message", &Image::must(&cm), &Chan::secrets(&simg, &["old_state.revocation_pair.lock", "old_state.nonce"]))?;
            ch.check_close(w, "started", cm, ch.cb, ch.mb)?;
            trace.push(format!("pay#{} {} started; closed-from-started", pi, p.amount.label()));
            return Ok(json!({"trace": trace, "cb": ch.cb, "mb": ch.mb, "completed_payments": completed}));
        }

        // faulty closing signatures, then the honest one
        let mut started = started;
        for f in &p.faults_close {
            let (bad, bad_twin): (ClosingSignature, Option<ClosingSignature>) = match ch.fault_bytes(w, f, &closing_bytes, &c_close, &c_state, true) {
                Some(b) => (wire::dec(&b).map_err(|e| Fail::new("harness/fault-undecodable", e))?, Some(wire::dec(&b).unwrap())),
                None => {
                    let sz = ch.next_seed();
                    let (_, sig) = m.cfg.allow_payment(&mut zero_rng(sz), amount, &nonce, copy(&pay_proof_copy), &ch.ctx).ok_or_else(|| Fail::new("harness/identity-fault", "allow_payment refused"))?;
                    (sig, None)
                }
            };
            match offer(&mut ch, "lock", started, bad, bad_twin, &|st: Started, r| st.lock(r, cfg), &|o: &(Locked, zkabacus_crypto::customer::LockMessage)| wire::enc(&o.0), false, f.label())? {
                Err(st) => started = st,
                Ok(_) => unreachable!(),
            }
            w.bump("refused-replies");
            if o.close_check {
                let sc = ch.next_seed();
                ch.check_close(w, "started", copy(&started).close(&mut rng(sc)), ch.cb, ch.mb)?;
            }
        }
        let lock_out = |o: &(Locked, zkabacus_crypto::customer::LockMessage)| {
            let mut b = wire::enc(&o.0);
            b.extend(wire::enc(&o.1.revocation_pair));
            b.extend(wire::enc(&o.1.revocation_lock_blinding_factor));
            b
        };
        let old_lock = simg.get("old_state.revocation_pair.lock").to_vec();
        let (locked, lock_msg) = match offer(&mut ch, "lock", started, closing, Some(wire::dec(&closing_bytes).unwrap()), &|st: Started, r| st.lock(r, cfg), &lock_out, true, "")? {
            Ok(x) => x,
            Err(_) => unreachable!(),
        };
        w.pool_closing.push(closing_bytes);
        // the revocation pair released is the old state's, and only now
        ensure!(
            lock_msg.revocation_pair.revocation_lock().as_bytes().to_vec() == old_lock,
            format!("{}/lock-message-revokes-wrong-state", o.prop),
            "the lock message does not carry the previous state's revocation lock"
        );
        w.disclosed_locks.insert(old_lock.clone());
        ch.cb = new_cb;
        ch.mb = new_mb;
        ensure!(
            locked.customer_balance().into_inner() == ch.cb && locked.merchant_balance().into_inner() == ch.mb,
            format!("{}/stage-balances-differ-from-ledger/locked", o.prop),
            "Locked reports ({}, {}), ledger (post-payment) says ({}, {})",
            locked.customer_balance().into_inner(),
            locked.merchant_balance().into_inner(),
            ch.cb,
            ch.mb
        );
        let limg = Image::must(&locked);
        let pair_bytes = wire::enc(&lock_msg.revocation_pair);
        let bf_bytes = wire::enc(&lock_msg.revocation_lock_blinding_factor);
        if o.view {
            let atoms = vec![pair_bytes[..32].to_vec(), pair_bytes[32..64].to_vec(), bf_bytes.clone()];
            ch.send_atoms(w, true, "lock-message", atoms, &Chan::secrets(&limg, &[]))?;
        }
        // at the moment the secret is released the successor state closes validly
        {
            let sc = ch.next_seed();
            ch.check_close(w, "locked", copy(&locked).close(&mut rng(sc)), ch.cb, ch.mb)?;
        }
        if p.stop == Some(PayStop::AfterLock) {
            let sc = ch.next_seed();
            let cm = locked.close(&mut rng(sc));
            ch.send(w, true, "closing-message", &Image::must(&cm), &Chan::secrets(&limg, &["state.revocation_pair.lock"]))?;
            ch.check_close(w, "locked", cm, ch.cb, ch.mb)?;
            trace.push(format!("pay#{} {} locked; closed-from-locked", pi, p.amount.label()));
            return Ok(json!({"trace": trace, "cb": ch.cb, "mb": ch.mb, "completed_payments": completed}));
        }

        // ------------------------------------------------ merchant: complete_payment
        let mut unrevoked = unrevoked;
        if o.c05 {
            let before_dbg = format!("{:?}", unrevoked);
            for rf in &p.rev_faults {
                let sz = ch.next_seed();
                let others: Vec<&(Vec<u8>, Vec<u8>)> = w.pool_pairs.iter().filter(|(pb, _)| *pb != pair_bytes).collect();
                let (cand_pair, cand_bf, label): (Vec<u8>, Vec<u8>, &str) = match rf {
                    RevFault::OtherPair(sel) if !others.is_empty() => (others[pick_idx(*sel, others.len())].0.clone(), bf_bytes.clone(), "pair-of-other-state"),
                    RevFault::OtherPair(_) | RevFault::FreshPair(_) => {
                        let seedp = match rf { RevFault::FreshPair(s) => *s, RevFault::OtherPair(s2) => *s2 as u64, _ => 0 };
                        let fresh = zkabacus_crypto::internal::test_new_revocation_pair(&mut rng(seedp ^ sz));
                        (wire::enc(&fresh), bf_bytes.clone(), "fresh-pair-right-bf")
                    }
                    RevFault::BfShift(d) => {
                        let b = wire::sc(&bf_bytes).unwrap() + crate::props::common::nonzero(d);
                        (pair_bytes.clone(), b.to_bytes().to_vec(), "right-pair-shifted-bf")
                    }
                    RevFault::OtherBf(sel) if !others.is_empty() => (pair_bytes.clone(), others[pick_idx(*sel, others.len())].1.clone(), "right-pair-bf-of-other-payment"),
                    RevFault::BothOther(sel) if !others.is_empty() => {
                        let x = others[pick_idx(*sel, others.len())];
                        (x.0.clone(), x.1.clone(), "pair-and-bf-of-other-payment")
                    }
                    RevFault::RandomBf(x) => (pair_bytes.clone(), rand_scalar(*x).to_bytes().to_vec(), "right-pair-random-bf"),
                    _ => (pair_bytes.clone(), rand_scalar(sz).to_bytes().to_vec(), "right-pair-random-bf"),
                };
                let cp: RevocationPair = wire::dec(&cand_pair).map_err(|e| Fail::new("harness/candidate-pair-undecodable", e))?;
                let cbf: RevocationLockBlindingFactor = wire::dec(&cand_bf).map_err(|e| Fail::new("harness/candidate-bf-undecodable", e))?;
                // reference: does the candidate open the commitment of the accepted proof?
                let com = g1_atom(&ppimg, "old_revocation_lock_proof.commitment");
                let opens = m.rev_h * wire::sc(&cand_bf).unwrap() + m.rev_g * wire::sc(&cand_pair[..32]).unwrap() == com;
                ensure!(!opens, "harness/reference-disagrees-with-construction", "wrong candidate {} opens the commitment", label);
                rec.eval(1);
                match unrevoked.complete_payment(&mut rng(sz), &cp, &cbf) {
                    Ok(_) => return Err(fail(&o, &format!("pay-token-issued-without-valid-revocation/{}", label), format!("complete_payment issued a pay token for a candidate that does not open the revocation-lock commitment ({})", label))),
                    Err(u) => {
                        ensure!(format!("{:?}", u) == before_dbg, format!("{}/pending-payment-changed-after-refusal", o.prop), "the pending payment changed after a refused revocation");
                        unrevoked = u;
                    }
                }
                rec.class(&format!("revocation-refused/{}", label));
                w.bump("revocation-refusals");
            }
            let com = g1_atom(&ppimg, "old_revocation_lock_proof.commitment");
            ensure!(
                m.rev_h * wire::sc(&bf_bytes).unwrap() + m.rev_g * wire::sc(&pair_bytes[..32]).unwrap() == com,
                format!("{}/revocation-commitment-not-on-old-lock", o.prop),
                "the revocation-lock commitment of the accepted proof does not open to the pair and factor the customer releases"
            );
        }
        let s = ch.next_seed();
        let token = match unrevoked.complete_payment(&mut rng(s), &lock_msg.revocation_pair, &lock_msg.revocation_lock_blinding_factor) {
            Ok(t) => t,
            Err(_) => return Err(fail(&o, "valid-revocation-refused", "complete_payment refused the pair and blinding factor released by the customer".into())),
        };
        if o.c05 && !p.rev_faults.is_empty() {
            rec.class("revocation/refusal-then-success");
        }
        w.pool_pairs.push((pair_bytes.clone(), bf_bytes.clone()));
        let token_bytes = wire::enc(&token);
        ch.send(w, false, "pay-token(pay)", &Image::must(&token), &[])?;

        let mut locked = locked;
        for f in &p.faults_token {
            let (bad, bad_twin): (PayToken, Option<PayToken>) = match ch.fault_bytes(w, f, &token_bytes, &c_state, &c_close, false) {
                Some(b) => {
                    let t: PayToken = wire::dec(&b).map_err(|e| Fail::new("harness/fault-undecodable", e))?;
                    (t, Some(t))
                }
                None => {
                    let sz = ch.next_seed();
                    let (unr2, _) = m.cfg.allow_payment(&mut rng(sz), amount, &nonce, copy(&pay_proof_copy), &ch.ctx).ok_or_else(|| Fail::new("harness/identity-fault", "allow_payment refused"))?;
                    let pr: RevocationPair = wire::dec(&pair_bytes).unwrap();
                    let bfv: RevocationLockBlindingFactor = wire::dec(&bf_bytes).unwrap();
                    let t = unr2.complete_payment(&mut zero_rng(sz), &pr, &bfv).map_err(|_| Fail::new("harness/identity-fault", "complete_payment refused"))?;
                    (t, None)
                }
            };
            match offer(&mut ch, "unlock", locked, bad, bad_twin, &|st: Locked, r| st.unlock(r, cfg), &|o: &Ready| wire::enc(o), false, f.label())? {
                Err(st) => locked = st,
                Ok(_) => unreachable!(),
            }
            w.bump("refused-replies");
            if o.close_check {
                let sc = ch.next_seed();
                ch.check_close(w, "locked", copy(&locked).close(&mut rng(sc)), ch.cb, ch.mb)?;
            }
        }
        ready = match offer(&mut ch, "unlock", locked, token, Some(token), &|st: Locked, r| st.unlock(r, cfg), &|o: &Ready| wire::enc(o), true, "")? {
            Ok(r) => r,
            Err(_) => unreachable!(),
        };
        w.pool_tokens.push(token_bytes);
        completed += 1;
        w.bump("payments");
        trace.push(format!("pay#{} {} ({}) done", pi, p.amount.label(), amt));
    }

    // ---------------------------------------------------------------- final close from Ready
    ensure!(
        ready.customer_balance().into_inner() == ch.cb && ready.merchant_balance().into_inner() == ch.mb,
        format!("{}/stage-balances-differ-from-ledger/ready", o.prop),
        "Ready reports balances differing from the ledger at the end"
    );
    ensure!(
        ch.cb as u128 + ch.mb as u128 == h.cb.get() as u128 + h.mb.get() as u128,
        "harness/ledger-not-conserved",
        "ledger lost conservation"
    );
    let sc = ch.next_seed();
    let rimg = Image::must(&ready);
    let cm = ready.close(&mut rng(sc));
    ch.send(w, true, "closing-message", &Image::must(&cm), &Chan::secrets(&rimg, &["state.revocation_pair.lock"]))?;
    ch.check_close(w, "ready", cm, ch.cb, ch.mb)?;
    trace.push("closed-from-ready".into());
    Ok(json!({"trace": trace, "cb": ch.cb, "mb": ch.mb, "completed_payments": completed, "refused_amounts": refused_amounts}))
}
