//! C12 at the zkAbacus level (establish / pay proofs through the challenge-recorder hook).
use crate::engine::CheckDef;
pub fn checks() -> Vec<CheckDef> {
    vec![]
}
