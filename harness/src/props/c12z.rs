//! C12 at the zkAbacus level: no field of an establish or pay proof other than a response scalar,
//! no public value, key, parameter set or context byte can change without changing the challenge
//! the merchant derives (read through the challenge-recorder hook).

use super::c08::{change_atom, replaceable, AtomChange};
use super::common::*;
use crate::engine::wire::{self, Image};
use crate::engine::{enum_check, CheckDef, Ctx, Fail, Rec, R};
use crate::model::proto;
use bls12_381::Scalar;
use serde::{Deserialize, Serialize};
use serde_json::json;
use std::collections::HashMap;
use std::sync::{Arc, Mutex, OnceLock};
use zkabacus_crypto::{Context, EstablishProof, Nonce, PayProof};
use zkchannels_crypto::proofs::verif_hooks::drain;

#[derive(Clone, Debug, Serialize, Deserialize, Hash, PartialEq, Eq)]
pub enum ZKind {
    /// prover-side and verifier-side challenges of an honest run agree (establish and pay)
    Agreement,
    EstAtom(usize),
    PayAtom(usize),
    /// 0 cid (one bit), 1 cb+1, 2 cb-1, 3 mb+1, 4 mb-1, 5 other merchant key
    EstPublic(u8),
    /// 0 nonce+1, 1 fresh nonce, 2 other merchant key, 3 other range parameters
    PayPublic(u8),
    /// byte `pos` of a context input of length `len` flipped (len == pos: one byte appended)
    CtxByte { len: u8, pos: u8, pay: bool },
}

#[derive(Clone, Debug, Serialize, Deserialize)]
pub struct Case {
    seed: u64,
    kind: ZKind,
}

pub struct Honest {
    pub m: Arc<proto::Merchant>,
    pub cid: zkabacus_crypto::ChannelId,
    pub ctx_input: Vec<u8>,
    pub cb: u64,
    pub mb: u64,
    pub amt: i64,
    pub est_img: Image,
    pub est_prover_ch: Scalar,
    pub pay_img: Image,
    pub pay_prover_ch: Scalar,
    pub nonce_bytes: Vec<u8>,
}

pub fn ctx_input(seed: u64, len: usize) -> Vec<u8> {
    use rand_core::RngCore;
    let mut v = vec![0u8; len];
    rng(seed ^ 0xc7).fill_bytes(&mut v);
    v
}

pub fn honest(seed: u64) -> Arc<Honest> {
    static C: OnceLock<Mutex<HashMap<u64, Arc<Honest>>>> = OnceLock::new();
    let c = C.get_or_init(|| Mutex::new(HashMap::new()));
    if let Some(h) = c.lock().unwrap().get(&seed) {
        return h.clone();
    }
    let m = proto::merchant(seed % 2);
    let cid = proto::channel_id(&m, seed);
    // mostly short contexts, every fifth one longer than a SHA3-256 block (136 bytes)
    let input = ctx_input(seed, if seed % 5 == 4 { 140 + (seed % 90) as usize } else { (seed % 60) as usize + 4 });
    let ctx = Context::new(&input);
    let (cb, mb) = (100 + seed % 900, 50 + (seed >> 4) % 500);
    let amt = (seed % 9) as i64 - 4;
    let _ = drain();
    let (req, proof) = zkabacus_crypto::customer::Requested::new(&mut rng(seed ^ 0xe1), &m.cust, cid, proto::mbal(mb), proto::cbal(cb), &ctx);
    let est_prover_ch = drain().last().expect("prover challenge").1;
    let est_img = Image::must(&proof);
    let (closing, vbs) = m.cfg.initialize(&mut rng(seed ^ 0xe2), &cid, proto::cbal(cb), proto::mbal(mb), proof, &ctx).expect("honest establish");
    let inactive = req.complete(closing, &m.cust).ok().expect("complete");
    let ready = inactive.activate(m.cfg.activate(&mut rng(seed ^ 0xe3), vbs), &m.cust).ok().expect("activate");
    let _ = drain();
    let (_started, msg) = ready.start(&mut rng(seed ^ 0xa1), proto::amount(amt), &ctx, &m.cust).ok().expect("start");
    let pay_prover_ch = drain().last().expect("prover challenge").1;
    let h = Arc::new(Honest {
        m,
        cid,
        ctx_input: input,
        cb,
        mb,
        amt,
        est_img,
        est_prover_ch,
        pay_img: Image::must(&msg.pay_proof),
        pay_prover_ch,
        nonce_bytes: wire::enc(&msg.nonce),
    });
    c.lock().unwrap().insert(seed, h.clone());
    h
}

/// Challenge the merchant derives for an establish proof under the given verification tuple.
fn est_challenge(m: &proto::Merchant, cid: &zkabacus_crypto::ChannelId, cb: u64, mb: u64, proof_bytes: &[u8], ctx: &Context) -> Option<(Scalar, bool)> {
    let proof: EstablishProof = wire::dec(proof_bytes).ok()?;
    let _ = drain();
    let acc = m.cfg.initialize(&mut rng(1), cid, proto::cbal(cb), proto::mbal(mb), proof, ctx).is_some();
    drain().last().map(|(_, c)| (*c, acc))
}

fn pay_challenge(m: &proto::Merchant, amt: i64, nonce_bytes: &[u8], proof_bytes: &[u8], ctx: &Context) -> Option<(Scalar, bool)> {
    let proof: PayProof = wire::dec(proof_bytes).ok()?;
    let nonce: Nonce = wire::dec(nonce_bytes).ok()?;
    let _ = drain();
    let acc = m.cfg.allow_payment(&mut rng(1), proto::amount(amt), &nonce, proof, ctx).is_some();
    drain().last().map(|(_, c)| (*c, acc))
}

fn is_response(field: &str) -> bool {
    field == "blinding_factor_response_scalar" || field == "message_response_scalars"
}

fn oracle(c: &Case, rec: &Rec) -> R {
    let h = honest(c.seed);
    let ctx = Context::new(&h.ctx_input);
    let differ = |what: String, base: Scalar, got: Option<(Scalar, bool)>, sig: String| -> R {
        let Some((ch, accepted)) = got else {
            rec.class("variant-refused-by-decoder");
            return Ok(());
        };
        rec.eval(1);
        if ch == base {
            return Err(Fail::new(sig, format!("{} leaves the challenge the merchant derives unchanged (proof {} afterwards)", what, if accepted { "still accepted" } else { "rejected" })).obs("challenge unchanged", "challenge changes"));
        }
        ensure!(!accepted, "C12/changed-input-still-accepted", "{}: challenge changed but the proof was still accepted", what);
        Ok(())
    };
    match &c.kind {
        ZKind::Agreement => {
            let (ve, acc_e) = est_challenge(&h.m, &h.cid, h.cb, h.mb, &h.est_img.bytes, &ctx).ok_or_else(|| Fail::new("harness/honest-proof-undecodable", "establish"))?;
            let (vp, acc_p) = pay_challenge(&h.m, h.amt, &h.nonce_bytes, &h.pay_img.bytes, &ctx).ok_or_else(|| Fail::new("harness/honest-proof-undecodable", "pay"))?;
            rec.eval(2);
            ensure!(acc_e && acc_p, "C12/honest-proof-rejected", "honest proofs rejected (establish {}, pay {})", acc_e, acc_p);
            ensure!(ve == h.est_prover_ch, "C12/EstablishProof/prover-verifier-challenge-differ", "customer and merchant derive different challenges for an honest establish proof");
            ensure!(vp == h.pay_prover_ch, "C12/PayProof/prover-verifier-challenge-differ", "customer and merchant derive different challenges for an honest pay proof");
            rec.class("agreement");
            rec.nontrivial(("agreement", c.seed));
        }
        ZKind::EstAtom(i) | ZKind::PayAtom(i) => {
            let pay = matches!(c.kind, ZKind::PayAtom(_));
            let img = if pay { &h.pay_img } else { &h.est_img };
            let idxs = replaceable(img);
            // even selector: unrelated replacement; odd selector: the negated element / scalar
            let ai = idxs[(*i / 2) % idxs.len()];
            let a = &img.atoms[ai];
            let change = if *i % 2 == 0 { AtomChange::Shift(ScSpec::Rand(c.seed ^ (*i as u64) << 8)) } else { AtomChange::Negate };
            let Some(bytes) = change_atom(img, ai, &change) else { return Ok(()) };
            let base = if pay { h.pay_prover_ch } else { h.est_prover_ch };
            let got = if pay { pay_challenge(&h.m, h.amt, &h.nonce_bytes, &bytes, &ctx) } else { est_challenge(&h.m, &h.cid, h.cb, h.mb, &bytes, &ctx) };
            let ty = if pay { "PayProof" } else { "EstablishProof" };
            if is_response(&a.field) {
                if let Some((ch, acc)) = got {
                    rec.eval(1);
                    ensure!(!acc, format!("C12/{}/altered-response-accepted", ty), "a proof with an altered response scalar was accepted");
                    rec.class(if ch == base { "response-atom/not-hashed(no-claim)" } else { "response-atom/hashed(no-claim)" });
                }
                return Ok(());
            }
            let name = if a.field.is_empty() { a.path.clone() } else { a.field.clone() };
            let short = a.path.split('.').filter(|s| !s.chars().all(|ch| ch.is_ascii_digit())).collect::<Vec<_>>().join(".");
            differ(format!("replacing atom '{}' of an honest {}", a.path, ty), base, got, format!("C12/{}/unhashed-atom/{}", ty, short))?;
            let _ = name;
            rec.class(&format!("{}/atom", ty));
            rec.nontrivial((ty, a.path.clone(), c.seed));
            rec.sample(&format!("{}/atom", ty), || json!({"proof": ty, "atom": a.path, "kind": format!("{:?}", a.kind)}));
        }
        ZKind::EstPublic(w) => {
            let mut cidb = h.cid.to_bytes();
            let (mut cb, mut mb, mut m) = (h.cb, h.mb, h.m.clone());
            let label = match w % 6 {
                0 => {
                    cidb[(c.seed % 31) as usize] ^= 1 << (c.seed % 8);
                    "channel-id-bit"
                }
                1 => {
                    cb += 1;
                    "customer-balance+1"
                }
                2 => {
                    cb -= 1;
                    "customer-balance-1"
                }
                3 => {
                    mb += 1;
                    "merchant-balance+1"
                }
                4 => {
                    mb -= 1;
                    "merchant-balance-1"
                }
                _ => {
                    m = proto::merchant(h.m.seed + 1);
                    "merchant-key"
                }
            };
            let cid: zkabacus_crypto::ChannelId = wire::dec(&cidb).unwrap();
            differ(format!("changing the public value {}", label), h.est_prover_ch, est_challenge(&m, &cid, cb, mb, &h.est_img.bytes, &ctx), format!("C12/EstablishProof/public-value-not-bound/{}", label))?;
            rec.class(&format!("establish-public/{}", label));
            rec.nontrivial((label, c.seed));
        }
        ZKind::PayPublic(w) => {
            let mut nb = h.nonce_bytes.clone();
            let mut m = h.m.clone();
            let label = match w % 4 {
                0 => {
                    nb = (wire::sc(&nb).unwrap() + Scalar::one()).to_bytes().to_vec();
                    "nonce+1"
                }
                1 => {
                    nb = rand_scalar(c.seed).to_bytes().to_vec();
                    "fresh-nonce"
                }
                2 => {
                    m = proto::merchant_variant(h.m.seed, 0);
                    "merchant-key"
                }
                _ => {
                    m = proto::merchant_variant(h.m.seed, 2);
                    "range-parameters"
                }
            };
            differ(format!("changing {}", label), h.pay_prover_ch, pay_challenge(&m, h.amt, &nb, &h.pay_img.bytes, &ctx), format!("C12/PayProof/public-value-not-bound/{}", label))?;
            rec.class(&format!("pay-public/{}", label));
            rec.nontrivial((label, c.seed));
        }
        ZKind::CtxByte { len, pos, pay } => {
            // an honest proof for a context input of the requested length
            let len = *len as usize;
            let input = ctx_input(c.seed ^ 0x99, len);
            let ctx0 = Context::new(&input);
            let mut input2 = input.clone();
            if (*pos as usize) < len {
                input2[*pos as usize] ^= 1 << (c.seed % 8);
            } else {
                // one byte appended: 0x00 for even seeds (padding-like), arbitrary otherwise
                input2.push(if c.seed % 2 == 0 { 0 } else { (c.seed >> 8) as u8 });
            }
            let ctx1 = Context::new(&input2);
            ensure!(ctx0.as_bytes() != ctx1.as_bytes(), "C12/context-digest-ignores-byte", "Context::new gives the same digest after changing byte {} of a {}-byte input", pos, len);
            // the challenge under the changed context differs (same proof bytes: only the context changes)
            let (b0, b1) = if *pay {
                (pay_challenge(&h.m, h.amt, &h.nonce_bytes, &h.pay_img.bytes, &ctx0), pay_challenge(&h.m, h.amt, &h.nonce_bytes, &h.pay_img.bytes, &ctx1))
            } else {
                (est_challenge(&h.m, &h.cid, h.cb, h.mb, &h.est_img.bytes, &ctx0), est_challenge(&h.m, &h.cid, h.cb, h.mb, &h.est_img.bytes, &ctx1))
            };
            let (Some((c0, _)), Some((c1, _))) = (b0, b1) else { return Err(Fail::new("harness/honest-proof-undecodable", "ctx")) };
            rec.eval(1);
            ensure!(c0 != c1, format!("C12/{}/context-byte-not-bound", if *pay { "PayProof" } else { "EstablishProof" }), "changing byte {} of a {}-byte context input leaves the merchant's challenge unchanged", pos, len);
            rec.class(&format!("context-byte/{}", if *pay { "pay" } else { "establish" }));
            rec.nontrivial((len, *pos, *pay, c.seed));
        }
    }
    Ok(())
}

fn gen(ctx: &Ctx) -> Vec<Case> {
    let mut out = Vec::new();
    let est_seeds = ctx.tier.pick(12u64, 60);
    let pay_seeds = ctx.tier.pick(2u64, 40);
    let base = ctx.seed.wrapping_mul(7919);
    for s in 0..est_seeds {
        let seed = base + s;
        out.push(Case { seed, kind: ZKind::Agreement });
        let n = 2 * replaceable(&honest(seed).est_img).len();
        for i in 0..n {
            out.push(Case { seed, kind: ZKind::EstAtom(i) });
        }
        for w in 0..6 {
            out.push(Case { seed, kind: ZKind::EstPublic(w) });
        }
    }
    for s in 0..pay_seeds {
        let seed = base + s;
        let n = 2 * replaceable(&honest(seed).pay_img).len();
        for i in 0..n {
            out.push(Case { seed, kind: ZKind::PayAtom(i) });
        }
        for w in 0..4 {
            out.push(Case { seed, kind: ZKind::PayPublic(w) });
        }
    }
    // every byte position of context inputs of several lengths
    let lens: Vec<u8> = ctx.tier.pick(vec![0u8, 1, 31, 32, 33, 64], vec![0, 1, 2, 7, 31, 32, 33, 63, 64, 65, 96]);
    for (k, len) in lens.iter().enumerate() {
        for pos in 0..=*len {
            out.push(Case { seed: base + (k as u64 % est_seeds), kind: ZKind::CtxByte { len: *len, pos, pay: false } });
        }
        // the append case with both an arbitrary and a zero byte (seed parity selects)
        out.push(Case { seed: base + (k as u64 % est_seeds) + 1, kind: ZKind::CtxByte { len: *len, pos: *len, pay: false } });
    }
    for pos in [0u8, 15, 31, 32] {
        out.push(Case { seed: base, kind: ZKind::CtxByte { len: 32, pos, pay: true } });
    }
    out
}

pub fn checks() -> Vec<CheckDef> {
    vec![enum_check(
        "zkabacus-atoms",
        "enumerated over honest establish proofs (12 quick / 60 thorough) and pay proofs (2 / 40): every replaceable atom of the traced wire form (establish: 4 revealed commitment scalars + 2x(C,T) and the response scalars; pay: 2 revealed scalars + token proof (s1',s2',C,T) + lock proof (C,T) + 2x(C,T) + 18 digit proofs x (s1',s2',C,T) and the response scalars) replaced by a different valid value; every public value (channel id bit, balances +-1, nonce +1 / fresh), the merchant key, the range parameters; every byte position of context inputs of lengths {0,1,31,32,33,64,...}; oracle (challenge read through the recorder hook inside initialize / allow_payment): prover's challenge == merchant's challenge on honest runs; any non-response change => the merchant's challenge differs (and the proof is rejected); response atoms carry no claim and are reported separately; exhaustive over atoms of each instance",
        &["EstablishProof/atom", "PayProof/atom", "agreement", "context-byte/establish"],
        true,
        gen,
        oracle,
    )]
}
