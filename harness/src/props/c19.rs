//! C19 — Generated keys and parameters are well-formed for every randomness stream.

use super::c13::observed_l_u;
use super::common::*;
use crate::engine::refmath::{ps_verify, u64_scalar, PkAtoms, SkAtoms};
use crate::engine::rng::{Pattern, ScriptedRng, Window};
use crate::engine::wire::{self, Image};
use crate::engine::{enum_check, CheckDef, Ctx, Fail, Rec, Tier, R};
use bls12_381::{pairing, G1Projective, G2Projective, Scalar};
use group::Curve;
use serde::{Deserialize, Serialize};
use serde_json::json;
use zkchannels_crypto::{
    pedersen::PedersenParameters, pointcheval_sanders::KeyPair, proofs::RangeConstraintParameters, Message,
};

#[derive(Clone, Copy, Debug, Serialize, Deserialize, Hash, PartialEq, Eq)]
pub enum Ctor {
    KeyPair,
    PedersenG1,
    PedersenG2,
    RangeParams,
    MerchantConfig,
}

#[derive(Clone, Debug, Serialize, Deserialize)]
pub struct Case {
    ctor: Ctor,
    n_idx: u8,
    /// index of the first recorded draw covered by the zero window (None = uniform stream)
    draw: Option<u32>,
    width: u8,
    seed: u64,
}

/// Well-formedness of a key pair, from its encoding.
pub fn check_keypair_image(img: &Image, prefix: &str, what: &str) -> R {
    let p = |f: &str| if prefix.is_empty() { f.to_string() } else { format!("{}.{}", prefix, f) };
    let sk = SkAtoms::from_image(img, &p("sk"));
    let pk = PkAtoms::from_image(img, &p("pk"));
    ensure!(sk.x != Scalar::zero(), format!("C19/{}/zero-secret-scalar", what), "secret scalar x is zero");
    for (i, y) in sk.ys.iter().enumerate() {
        ensure!(*y != Scalar::zero(), format!("C19/{}/zero-secret-scalar", what), "secret scalar y{} is zero", i);
    }
    let ident = |b: bool, name: String| -> R {
        ensure!(!b, format!("C19/{}/identity-public-element", what), "public element {} is the identity", name);
        Ok(())
    };
    ident(bool::from(sk.x1.is_identity()), "x1".into())?;
    ident(bool::from(pk.g1.is_identity()), "g1".into())?;
    ident(bool::from(pk.g2.is_identity()), "g2".into())?;
    ident(bool::from(pk.x2.is_identity()), "x2".into())?;
    for i in 0..pk.y1s.len() {
        ident(bool::from(pk.y1s[i].is_identity()), format!("y1[{}]", i))?;
        ident(bool::from(pk.y2s[i].is_identity()), format!("y2[{}]", i))?;
    }
    ensure!(pk.y1s.len() == sk.ys.len() && pk.y2s.len() == sk.ys.len(), format!("C19/{}/length", what), "key element counts differ");
    let g1 = G1Projective::from(pk.g1);
    let g2 = G2Projective::from(pk.g2);
    ensure!((g1 * sk.x).to_affine() == sk.x1, format!("C19/{}/discrete-log-mismatch", what), "x1 != g1^x");
    ensure!((g2 * sk.x).to_affine() == pk.x2, format!("C19/{}/discrete-log-mismatch", what), "x2 != g2^x");
    for i in 0..sk.ys.len() {
        ensure!((g1 * sk.ys[i]).to_affine() == pk.y1s[i], format!("C19/{}/discrete-log-mismatch", what), "y1[{}] != g1^y{}", i, i);
        ensure!((g2 * sk.ys[i]).to_affine() == pk.y2s[i], format!("C19/{}/discrete-log-mismatch", what), "y2[{}] != g2^y{}", i, i);
        ensure!(
            pairing(&pk.y1s[i], &pk.g2) == pairing(&pk.g1, &pk.y2s[i]),
            format!("C19/{}/discrete-log-mismatch", what),
            "e(y1[{}], g2) != e(g1, y2[{}])",
            i,
            i
        );
    }
    Ok(())
}

fn check_keypair<const N: usize>(kp: &KeyPair<N>, what: &str, seed: u64, rec: &Rec) -> R {
    let img = Image::must(kp);
    check_keypair_image(&img, "", what)?;
    rec.eval(1);
    // passes the library's own decode-time validation and re-encodes identically
    let back: KeyPair<N> = wire::dec(&img.bytes).map_err(|e| Fail::new(format!("C19/{}/generated-value-fails-own-validation", what), e))?;
    ensure!(wire::enc(&back) == img.bytes, format!("C19/{}/round-trip-differs", what), "re-encoded key differs");
    // a signature made with it verifies (library and reference)
    let m: [Scalar; N] = {
        let mut a = [Scalar::zero(); N];
        for (i, v) in a.iter_mut().enumerate() {
            *v = rand_scalar(seed.wrapping_add(i as u64));
        }
        a
    };
    let sig = Message::new(m).sign(&mut rng(seed ^ 0x51), kp);
    let pk = PkAtoms::from_image(&img, "pk");
    rec.eval(2);
    ensure!(
        sig.verify(kp.public_key(), &Message::new(m)) && ps_verify(&pk, &m, &sig.sigma1(), &sig.sigma2()),
        format!("C19/{}/signature-with-generated-key-invalid", what),
        "a signature made with the generated key does not verify"
    );
    Ok(())
}

fn check_pedersen<G: Grp, const N: usize>(p: &PedersenParameters<G, N>, what: &str, rec: &Rec) -> R {
    let img = Image::must(p);
    let h = G::from_atom(img.get("h")).ok_or_else(|| Fail::new(format!("C19/{}/invalid-element", what), "h does not decode"))?;
    ensure!(!bool::from(h.is_identity()), format!("C19/{}/identity-generator", what), "h is the identity");
    let gs = img.list("gs");
    ensure!(gs.len() == N, format!("C19/{}/length", what), "generator count {} != N {}", gs.len(), N);
    for (j, i) in gs.into_iter().enumerate() {
        let g = G::from_atom(img.at(i)).ok_or_else(|| Fail::new(format!("C19/{}/invalid-element", what), "g does not decode"))?;
        ensure!(!bool::from(g.is_identity()), format!("C19/{}/identity-generator", what), "generator {} is the identity", j);
    }
    rec.eval(1);
    let back: PedersenParameters<G, N> = wire::dec(&img.bytes).map_err(|e| Fail::new(format!("C19/{}/generated-value-fails-own-validation", what), e))?;
    ensure!(wire::enc(&back) == img.bytes, format!("C19/{}/round-trip-differs", what), "re-encoded parameters differ");
    Ok(())
}

pub fn check_range_params(p: &RangeConstraintParameters, what: &str, rec: &Rec) -> R {
    let img = Image::must(p);
    let (_, u) = observed_l_u(p);
    let pk = PkAtoms::from_image(&img, "public_key");
    for e in [&pk.g1].into_iter() {
        ensure!(!bool::from(e.is_identity()), format!("C19/{}/identity-public-element", what), "range key g1 is the identity");
    }
    ensure!(
        !bool::from(pk.g2.is_identity()) && !bool::from(pk.x2.is_identity()) && !bool::from(pk.y1s[0].is_identity()) && !bool::from(pk.y2s[0].is_identity()),
        format!("C19/{}/identity-public-element", what),
        "range key contains the identity"
    );
    ensure!(pairing(&pk.y1s[0], &pk.g2) == pairing(&pk.g1, &pk.y2s[0]), format!("C19/{}/discrete-log-mismatch", what), "range key: e(y1,g2) != e(g1,y2)");
    for i in 0..u {
        let s1 = img.g1(&format!("digit_signatures.{}.sigma1", i));
        let s2 = img.g1(&format!("digit_signatures.{}.sigma2", i));
        rec.eval(1);
        ensure!(ps_verify(&pk, &[u64_scalar(i as u64)], &s1, &s2), format!("C19/{}/digit-signature-invalid", what), "digit signature {} does not verify on digit {} under the set's own key", i, i);
    }
    rec.eval(1);
    ensure!(p.validate().is_ok(), format!("C19/{}/validate-fails", what), "generated range parameters fail validate()");
    let back: RangeConstraintParameters = wire::dec(&img.bytes).map_err(|e| Fail::new(format!("C19/{}/generated-value-fails-own-validation", what), e))?;
    ensure!(wire::enc(&back) == img.bytes, format!("C19/{}/round-trip-differs", what), "re-encoded range parameters differ");
    Ok(())
}

fn construct<const N: usize>(c: &Case, z: &mut ScriptedRng, rec: Option<&Rec>) -> R {
    match c.ctor {
        Ctor::KeyPair => {
            let kp = KeyPair::<N>::new(z);
            if let Some(rec) = rec {
                check_keypair(&kp, "KeyPair", c.seed, rec)?;
            }
        }
        Ctor::PedersenG1 => {
            let p = PedersenParameters::<G1Projective, N>::new(z);
            if let Some(rec) = rec {
                check_pedersen(&p, "PedersenParametersG1", rec)?;
            }
        }
        Ctor::PedersenG2 => {
            let p = PedersenParameters::<G2Projective, N>::new(z);
            if let Some(rec) = rec {
                check_pedersen(&p, "PedersenParametersG2", rec)?;
            }
        }
        Ctor::RangeParams => {
            let p = RangeConstraintParameters::new(z);
            if let Some(rec) = rec {
                check_range_params(&p, "RangeConstraintParameters", rec)?;
            }
        }
        Ctor::MerchantConfig => {
            let m = zkabacus_crypto::merchant::Config::new(z);
            if let Some(rec) = rec {
                check_keypair(m.signing_keypair(), "merchant::Config/keypair", c.seed, rec)?;
                check_pedersen(m.revocation_commitment_parameters(), "merchant::Config/revocation-parameters", rec)?;
                check_range_params(m.range_constraint_parameters(), "merchant::Config/range-parameters", rec)?;
                let (pk, rp, rg) = m.extract_customer_config_parts();
                ensure!(
                    wire::enc(&pk) == wire::enc(m.signing_keypair().public_key()) && wire::enc(&rp) == wire::enc(m.revocation_commitment_parameters()) && wire::enc(&rg) == wire::enc(m.range_constraint_parameters()),
                    "C19/merchant::Config/customer-parts-differ",
                    "customer config parts are not the merchant's public parameters"
                );
            }
        }
    }
    Ok(())
}

fn draw_log(c: &Case) -> Vec<(usize, usize)> {
    let probe = Case { draw: None, ..c.clone() };
    let mut z = ScriptedRng::new(c.seed, vec![]);
    let n = n_of(c.n_idx);
    let _ = with_n!(n, construct(&probe, &mut z, None));
    z.log
}

fn oracle(c: &Case, rec: &Rec) -> R {
    let n = n_of(c.n_idx);
    let mut windows = vec![];
    let mut kind = "uniform".to_string();
    if let Some(d) = c.draw {
        let log = draw_log(c);
        let d = d as usize;
        if d >= log.len() {
            rec.class("draw-index-beyond-log");
            return Ok(());
        }
        let last = (d + c.width.max(1) as usize - 1).min(log.len() - 1);
        let off = log[d].0;
        let end = log[last].0 + log[last].1;
        windows.push(Window { off, len: end - off, pat: Pattern::Zero });
        kind = format!("zero-window/draw-len-{}/width-{}", log[d].1, c.width.max(1));
    }
    let mut z = ScriptedRng::new(c.seed, windows);
    with_n!(n, construct(c, &mut z, Some(rec)))?;
    let label = format!("{:?}/{}", c.ctor, kind);
    rec.class(&label);
    if c.draw.is_some() {
        ensure!(z.covered >= 1, "harness/zero-window-missed", "zero window covered no draw");
        rec.nontrivial((format!("{:?}", c.ctor), n, c.draw, c.width));
        rec.note("draws-fully-zeroed", z.covered as u64);
        rec.note("extra-draws-after-retry", z.log.len() as u64);
    }
    rec.sample(&label, || json!({"constructor": format!("{:?}", c.ctor), "N": n, "first_zeroed_draw": c.draw, "width": c.width, "draws": z.log.len(), "draws_fully_zeroed": z.covered}));
    Ok(())
}

fn gen(ctx: &Ctx) -> Vec<Case> {
    let mut out = Vec::new();
    let seeds: Vec<u64> = (0..ctx.tier.pick(1u64, 6)).map(|i| ctx.seed.wrapping_mul(1_000_003).wrapping_add(i)).collect();
    for &seed in &seeds {
        for ctor in [Ctor::KeyPair, Ctor::PedersenG1, Ctor::PedersenG2] {
            for n_idx in 0..6u8 {
                let base = Case { ctor, n_idx, draw: None, width: 1, seed };
                out.push(base.clone());
                let log = draw_log(&base);
                for d in 0..log.len() {
                    for width in 1..=3u8 {
                        out.push(Case { draw: Some(d as u32), width, ..base.clone() });
                    }
                }
            }
        }
    }
    // range parameters and merchant configuration: expensive; windows on the key-generation draws
    // and on a sample of the signing draws
    let heavy = ctx.tier.pick(1usize, 6);
    for h in 0..heavy {
        let seed = ctx.seed.wrapping_add(77 + h as u64);
        for ctor in [Ctor::RangeParams, Ctor::MerchantConfig] {
            let base = Case { ctor, n_idx: 0, draw: None, width: 1, seed };
            out.push(base.clone());
            let log = draw_log(&base);
            let mut picks: Vec<usize> = (0..log.len().min(ctx.tier.pick(9, 14))).collect();
            let step = (log.len() / ctx.tier.pick(4, 24)).max(1);
            picks.extend((0..log.len()).step_by(step).skip(1));
            picks.push(log.len() - 1);
            picks.sort();
            picks.dedup();
            for d in picks {
                out.push(Case { draw: Some(d as u32), width: 1 + (d % 3) as u8, ..base.clone() });
            }
        }
    }
    out
}

pub fn checks() -> Vec<CheckDef> {
    vec![enum_check(
        "keygen-streams",
        "enumerated (constructor in {KeyPair<N>::new, PedersenParameters<G1|G2,N>::new} x N in {1,2,3,5,8,13} x every recorded draw x zero-window width 1..3 — exhaustive over draw positions) plus RangeConstraintParameters::new and merchant::Config::new with windows on every key-generation draw and a sample of signing draws, each also under the un-overlaid stream; oracle from the encodings: non-zero secret scalars, non-identity public elements, x1=g1^x, y1_i=g1^y_i, x2=g2^x, y2_i=g2^y_i, e(y1_i,g2)=e(g1,y2_i), value re-decodes (library validators) to the same bytes, a signature made with the key verifies (library and reference), validate() ok and every digit signature verifies on its index; non-trivial = a run whose zero window fully covered >=1 draw (from the draw log); distinct by (constructor, N, draw, width)",
        &[],
        true,
        gen,
        oracle,
    )]
}
