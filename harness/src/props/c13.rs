//! C13 — Range constraints accept exactly values in [0, 2^63) linked to the message.

use super::c10::{range_params, range_val, RangeVal, PB};
use super::c11::{challenge_from_seed, PKind};
use super::common::*;
use crate::engine::refmath::{ps_verify, sigproof, PkAtoms};
use crate::engine::wire::{self, Image};
use crate::engine::{enum_check, no_panic, panic_sig, pick_idx, prop_check, CheckDef, Ctx, Fail, Rec, Tier, R};
use bls12_381::{G1Projective, Scalar};
use group::Curve;
use proptest::prelude::*;
use serde::{Deserialize, Serialize};
use serde_json::json;
use zkchannels_crypto::{
    pedersen::PedersenParameters,
    pointcheval_sanders::{KeyPair, PublicKey, Signature},
    proofs::{
        Challenge, ChallengeBuilder, CommitmentProofBuilder, RangeConstraint, RangeConstraintBuilder,
        RangeConstraintParameters, SignatureProof, SignatureProofBuilder,
    },
    Message,
};

/// (L, u) as the encodings state them: number of digit proofs in a constraint, number of digit
/// signatures in a parameter set.
pub fn observed_l_u(p: &RangeConstraintParameters) -> (usize, usize) {
    let pimg = Image::must(p);
    let u = pimg.atoms.iter().filter(|a| a.path.starts_with("digit_signatures.") && a.path.ends_with(".sigma1")).count();
    let rb = RangeConstraintBuilder::generate_constraint_commitments(1, p, &mut rng(1)).expect("1 is in range");
    let rc = rb.generate_constraint_response(challenge_from_seed(1));
    let rimg = Image::must(&rc);
    let l = rimg.atoms.iter().filter(|a| a.path.starts_with("digit_proofs.") && a.path.ends_with(".blinded_signature.sigma1")).count();
    (l, u)
}

/// Weight base of the digit sum. The property fixes the range [0, 2^63) = [0, b^L): with L digits the
/// base is b = 2^(63/L) (128 for L = 9), *whatever* the number of published digit signatures is - a
/// parameter set publishing a 129th signature must not widen the range. If 63/L is not integral the
/// number of published signatures is the only candidate left.
pub fn digit_base(l: usize, u: usize) -> u64 {
    if l > 0 && 63 % l == 0 && 63 / l < 32 {
        1u64 << (63 / l)
    } else {
        u as u64
    }
}

/// Reference verdict for a range constraint from its wire atoms (`u` = weight base).
pub fn range_ref(pk: &PkAtoms, u: usize, rc: &Image, c: &Scalar, expected: &Scalar) -> bool {
    let mut ok = true;
    let mut sum = Scalar::zero();
    let mut upow = Scalar::one();
    let mut j = 0;
    loop {
        let p = format!("digit_proofs.{}", j);
        if rc.find(&format!("{}.blinded_signature.sigma1", p)).is_none() {
            break;
        }
        let z = rc.scalars(&format!("{}.commitment_proof.message_response_scalars", p));
        ok &= sigproof(
            pk,
            &rc.g1(&format!("{}.blinded_signature.sigma1", p)),
            &rc.g1(&format!("{}.blinded_signature.sigma2", p)),
            &rc.g2(&format!("{}.commitment_proof.commitment", p)),
            &rc.g2(&format!("{}.commitment_proof.scalar_commitment", p)),
            &rc.scalar(&format!("{}.commitment_proof.blinding_factor_response_scalar", p)),
            &z,
            c,
        );
        sum += upow * z[0];
        upow *= Scalar::from(u as u64);
        j += 1;
    }
    ok && sum == *expected
}

// ------------------------------------------------------------------------------------------------
// (a) prover sign test
// ------------------------------------------------------------------------------------------------

#[derive(Clone, Debug, Serialize, Deserialize)]
pub struct ProverCase {
    value: i64,
}

fn prover_gen(ctx: &Ctx) -> Vec<ProverCase> {
    let mut v: Vec<i64> = vec![i64::MIN, i64::MIN + 1, -(1 << 62), -129, -128, -127, -2, -1, 0, 1, 2, 126, 127, 128, 129, (1 << 62) - 1, 1 << 62, i64::MAX - 1, i64::MAX];
    for k in 1..9u32 {
        let p = 1i64 << (7 * k);
        v.extend([p - 1, p, p + 1, -p]);
    }
    let mut s = ctx.seed.wrapping_mul(0x9e37_79b9_7f4a_7c15) | 1;
    for _ in 0..ctx.tier.pick(40, 2000) {
        s ^= s << 13;
        s ^= s >> 7;
        s ^= s << 17;
        v.push(s as i64);
    }
    v.into_iter().map(|value| ProverCase { value }).collect()
}

fn prover_oracle(c: &ProverCase, rec: &Rec) -> R {
    let p = range_params(0);
    let res = no_panic(|| RangeConstraintBuilder::generate_constraint_commitments(c.value, &p, &mut rng(c.value as u64)));
    rec.eval(1);
    let res = res.map_err(|d| Fail::new(format!("C13/prover-panic/{}", panic_sig(&d)), format!("range prover panicked on {}: {}", c.value, d)))?;
    match (&res, c.value < 0) {
        (Err(e), true) => {
            ensure!(e.0 == c.value, "C13/prover-error-value", "error reports {} for input {}", e.0, c.value);
            rec.class("negative/refused");
        }
        (Ok(_), false) => rec.class("in-range/accepted"),
        (Ok(_), true) => return Err(Fail::new("C13/prover-accepts-negative", format!("range prover accepted the negative value {}", c.value))),
        (Err(_), false) => return Err(Fail::new("C13/prover-refuses-in-range", format!("range prover refused the in-range value {}", c.value))),
    }
    if let Ok(rb) = res {
        // an accepted value must yield a constraint that verifies against c*v + s
        let ch = ChallengeBuilder::new().with(&rb).finish();
        let cs = rb.commitment_scalar();
        let rc = rb.generate_constraint_response(ch);
        let expect = ch.to_scalar() * Scalar::from(c.value as u64) + cs;
        rec.eval(1);
        ensure!(rc.verify_range_constraint(&p, ch, expect), "C13/honest-constraint-rejected", "constraint for {} does not verify against c*v+s", c.value);
    }
    rec.nontrivial(c.value);
    rec.sample(if c.value < 0 { "negative" } else { "in-range" }, || json!({"value": c.value}));
    Ok(())
}

// ------------------------------------------------------------------------------------------------
// (b) honest constraints, linked and mis-linked
// ------------------------------------------------------------------------------------------------

#[derive(Clone, Debug, Serialize, Deserialize, Hash, PartialEq, Eq)]
pub enum Mismatch {
    None,
    OtherSlot(u16),
    FreshParams,
    OtherChallenge(u64),
    ShiftedResponse(ScSpec),
}

#[derive(Clone, Debug, Serialize, Deserialize)]
pub struct HonestCase {
    value: RangeVal,
    kind: PKind,
    n_idx: u8,
    slot: u16,
    msg: Vec<ScSpec>,
    mismatch: Mismatch,
    seed: u64,
}

fn honest_strategy(_t: Tier) -> impl Strategy<Value = HonestCase> {
    let kind = prop_oneof![Just(PKind::ComG1), Just(PKind::ComG2), Just(PKind::Sig), Just(PKind::Req)];
    let mm = prop_oneof![
        2 => Just(Mismatch::None),
        2 => any::<u16>().prop_map(Mismatch::OtherSlot),
        1 => Just(Mismatch::FreshParams),
        1 => any::<u64>().prop_map(Mismatch::OtherChallenge),
        1 => delta_spec().prop_map(Mismatch::ShiftedResponse),
    ];
    (range_val(), kind, 0u8..6, any::<u16>(), msg_specs(), mm, any::<u64>()).prop_map(|(value, kind, n_idx, slot, msg, mismatch, seed)| HonestCase {
        value,
        kind,
        n_idx,
        slot,
        msg,
        mismatch,
        seed,
    })
}

fn build_main<const N: usize>(kind: PKind, r: &mut rand_chacha::ChaCha20Rng, m: &[Scalar], cs: &[Option<Scalar>]) -> Box<dyn PB> {
    super::c10::build_pub::<N>(kind, 0, r, m, cs)
}

fn honest_oracle(c: &HonestCase, rec: &Rec) -> R {
    let n = n_of(c.n_idx);
    let slot = pick_idx(c.slot, n);
    let p = range_params(0);
    let (l, u) = observed_l_u(&p);
    let pk = PkAtoms::from_image(&Image::must(&*p), "public_key");
    let mut r = rng(c.seed);
    let v = c.value.get();
    let rb = RangeConstraintBuilder::generate_constraint_commitments(v, &p, &mut r).map_err(|e| Fail::new("C13/prover-refuses-in-range", e.to_string()))?;
    let mut m: Vec<Scalar> = c.msg[..n].iter().map(|s| s.get()).collect();
    m[slot] = Scalar::from(v as u64);
    let mut cs = vec![None; n];
    cs[slot] = Some(rb.commitment_scalar());
    let main = with_n!(n, build_main(c.kind, &mut r, &m, &cs));
    let mut cb = ChallengeBuilder::new();
    main.feed(&mut cb);
    cb.consume(&rb);
    cb.consume(&*p);
    let ch = cb.finish();
    let proof = main.respond(ch);
    let rc = rb.generate_constraint_response(ch);
    ensure!(proof.verify(ch), "C13/main-proof-rejected", "main {:?} proof does not verify", c.kind);
    let z = proof.z();
    let rimg = Image::must(&rc);

    let (params2, ch2, expected, label): (std::sync::Arc<RangeConstraintParameters>, Challenge, Scalar, &str) = match &c.mismatch {
        Mismatch::None => (p.clone(), ch, z[slot], "linked"),
        Mismatch::OtherSlot(t) if n >= 2 => {
            let mut t = pick_idx(*t, n);
            if t == slot {
                t = (slot + 1) % n;
            }
            (p.clone(), ch, z[t], "other-slot")
        }
        Mismatch::OtherSlot(_) => (p.clone(), ch, z[slot], "linked"),
        Mismatch::FreshParams => (range_params(1), ch, z[slot], "fresh-params"),
        Mismatch::OtherChallenge(s) => (p.clone(), challenge_from_seed(*s), z[slot], "other-challenge"),
        Mismatch::ShiftedResponse(d) => (p.clone(), ch, z[slot] + nonzero(d), "shifted-response"),
    };
    let pk2 = PkAtoms::from_image(&Image::must(&*params2), "public_key");
    let lib = rc.verify_range_constraint(&params2, ch2, expected);
    let reference = range_ref(&pk2, digit_base(l, u) as usize, &rimg, &ch2.to_scalar(), &expected);
    rec.eval(1);
    // by construction: accepted iff linked slot, same params, same challenge — except that two slots
    // holding the same value with the same commitment scalar cannot occur here (only one is linked)
    let by_construction = label == "linked";
    ensure!(
        reference == by_construction,
        if label == "linked" { "C13/honest-constraint-does-not-satisfy-relation" } else { "harness/reference-disagrees-with-construction" },
        "range reference says {} for {} (value {})",
        reference,
        label,
        v
    );
    if lib != reference {
        return Err(Fail::new(
            if reference { "C13/honest-constraint-rejected" } else { "C13/constraint-accepted-on-mismatch" },
            format!("verify_range_constraint returned {} for case '{}' (value {}, {:?} N={} slot {})", lib, label, v, c.kind, n, slot),
        )
        .obs(lib.to_string(), reference.to_string()));
    }
    let _ = (l, pk);
    rec.class(&format!("honest/{}/{}", label, if lib { "accept" } else { "reject" }));
    rec.class(&format!("value/{}", c.value.label()));
    rec.nontrivial((label, c.value.clone(), format!("{:?}", c.kind), n, slot));
    rec.sample(&format!("honest/{}", label), || json!({"value": v, "proof": format!("{:?}", c.kind), "N": n, "slot": slot, "case": label, "accepted": lib}));
    Ok(())
}

// ------------------------------------------------------------------------------------------------
// (c) attacker-assembled constraints
// ------------------------------------------------------------------------------------------------

#[derive(Clone, Debug, Serialize, Deserialize, Hash, PartialEq, Eq)]
pub enum DigitPlan {
    /// every digit the maximal published digit (u-1)
    AllMax,
    /// arbitrary published digits
    Published(Vec<u16>),
    /// position `pos` claims digit `claim` but uses the published signature on digit `sig`
    WrongClaim { base: Vec<u16>, pos: u16, claim: u16, sig: u16 },
    /// position `pos` uses a digit outside 0..u-1 with a signature from the attacker's own key,
    /// proven under the verifier's key (`under_own` = proven under the attacker's key instead)
    SelfSigned { base: Vec<u16>, pos: u16, digit: u16, under_own: bool },
}

#[derive(Clone, Debug, Serialize, Deserialize, Hash, PartialEq, Eq)]
pub enum LinkPlan {
    /// main proof commits to the value the digits encode
    True,
    /// main proof commits to another value
    Value(LinkTarget),
}

#[derive(Clone, Debug, Serialize, Deserialize, Hash, PartialEq, Eq)]
pub enum LinkTarget {
    TwoPow63,
    TwoPow63Plus(u16),
    MinusOne,
    PlusOne,
}

#[derive(Clone, Debug, Serialize, Deserialize)]
pub struct AsmCase {
    digits: DigitPlan,
    link: LinkPlan,
    seed: u64,
}

fn asm_strategy(_t: Tier) -> impl Strategy<Value = AsmCase> {
    let base = || proptest::collection::vec(any::<u16>(), 16);
    let dp = prop_oneof![
        2 => Just(DigitPlan::AllMax),
        3 => base().prop_map(DigitPlan::Published),
        3 => (base(), any::<u16>(), any::<u16>(), any::<u16>()).prop_map(|(base, pos, claim, sig)| DigitPlan::WrongClaim { base, pos, claim, sig }),
        2 => (base(), any::<u16>(), 0u16..300, any::<bool>()).prop_map(|(base, pos, digit, under_own)| DigitPlan::SelfSigned { base, pos, digit, under_own }),
    ];
    let lt = prop_oneof![
        Just(LinkTarget::TwoPow63),
        (1u16..).prop_map(LinkTarget::TwoPow63Plus),
        Just(LinkTarget::MinusOne),
        Just(LinkTarget::PlusOne)
    ];
    let lp = prop_oneof![3 => Just(LinkPlan::True), 2 => lt.prop_map(LinkPlan::Value)];
    (dp, lp, any::<u64>()).prop_map(|(digits, link, seed)| AsmCase { digits, link, seed })
}

fn published_sig(pimg: &Image, d: usize) -> Signature {
    let mut b = Vec::new();
    b.extend_from_slice(pimg.get(&format!("digit_signatures.{}.sigma1", d)));
    b.extend_from_slice(pimg.get(&format!("digit_signatures.{}.sigma2", d)));
    wire::dec::<Signature>(&b).expect("published digit signature decodes")
}

fn asm_oracle(c: &AsmCase, rec: &Rec) -> R {
    let p = range_params(0);
    let (l, u) = observed_l_u(&p);
    let pimg = Image::must(&*p);
    let vpk: PublicKey<1> = p.public_key().clone();
    let pka = PkAtoms::from_image(&pimg, "public_key");
    let mut r = rng(c.seed);
    let attacker = KeyPair::<1>::new(&mut rng(c.seed ^ 0xa77a));

    // digits claimed (message of each digit proof) and the signature shown for each
    let mut claim: Vec<u64> = Vec::new();
    let mut sigs: Vec<Signature> = Vec::new();
    let mut under: Vec<bool> = vec![false; l]; // proven under the attacker's key?
    let mut all_true = true; // every digit proof is a true statement about a published digit
    let plan_label;
    let from_base = |base: &Vec<u16>| -> Vec<u64> { (0..l).map(|j| pick_idx(base[j % base.len()], u) as u64).collect() };
    match &c.digits {
        DigitPlan::AllMax => {
            claim = vec![(u - 1) as u64; l];
            sigs = claim.iter().map(|d| published_sig(&pimg, *d as usize)).collect();
            plan_label = "all-maximal-digits";
        }
        DigitPlan::Published(base) => {
            claim = from_base(base);
            sigs = claim.iter().map(|d| published_sig(&pimg, *d as usize)).collect();
            plan_label = "published-digits";
        }
        DigitPlan::WrongClaim { base, pos, claim: cl, sig } => {
            claim = from_base(base);
            sigs = claim.iter().map(|d| published_sig(&pimg, *d as usize)).collect();
            let pos = pick_idx(*pos, l);
            let sd = pick_idx(*sig, u);
            // claimed digit: anything (including >= u) different from the signed one
            let mut cd = (*cl as u64) % (2 * u as u64 + 1);
            if cd == sd as u64 {
                cd += 1;
            }
            claim[pos] = cd;
            sigs[pos] = published_sig(&pimg, sd);
            all_true = false;
            plan_label = "signature-claimed-for-other-digit";
        }
        DigitPlan::SelfSigned { base, pos, digit, under_own } => {
            claim = from_base(base);
            sigs = claim.iter().map(|d| published_sig(&pimg, *d as usize)).collect();
            let pos = pick_idx(*pos, l);
            let d = u as u64 + *digit as u64;
            claim[pos] = d;
            sigs[pos] = Message::<1>::from(Scalar::from(d)).sign(&mut r, &attacker);
            under[pos] = *under_own;
            all_true = false;
            plan_label = if *under_own { "self-signed-digit/own-key" } else { "self-signed-digit/verifier-key" };
        }
    }

    // value the digits encode, as an exact integer
    let mut encoded: u128 = 0;
    let mut upow: u128 = 1;
    for d in &claim {
        encoded = encoded.wrapping_add(upow.wrapping_mul(*d as u128));
        upow = upow.wrapping_mul(digit_base(l, u) as u128);
    }
    let to_scalar = |x: u128| -> Scalar {
        let mut b = [0u8; 32];
        b[..16].copy_from_slice(&x.to_le_bytes());
        Scalar::from_bytes(&b).unwrap()
    };
    let (linked_scalar, linked_in_range, link_label): (Scalar, bool, &str) = match &c.link {
        LinkPlan::True => (to_scalar(encoded), encoded <= i64::MAX as u128, "encoded-value"),
        LinkPlan::Value(LinkTarget::TwoPow63) => (to_scalar(1u128 << 63), false, "2^63"),
        LinkPlan::Value(LinkTarget::TwoPow63Plus(k)) => (to_scalar((1u128 << 63) + *k as u128), false, "2^63+k"),
        LinkPlan::Value(LinkTarget::MinusOne) => (-Scalar::one(), false, "-1"),
        LinkPlan::Value(LinkTarget::PlusOne) => (to_scalar(encoded + 1), encoded + 1 <= i64::MAX as u128, "encoded+1"),
    };
    let link_is_true = linked_scalar == to_scalar(encoded);

    // digit proof builders, cumulative commitment scalar, main proof
    let builders: Vec<SignatureProofBuilder<1>> = (0..l)
        .map(|j| {
            SignatureProofBuilder::<1>::generate_proof_commitments(
                &mut r,
                Message::<1>::from(Scalar::from(claim[j])),
                sigs[j],
                &[None],
                if under[j] { attacker.public_key() } else { &vpk },
            )
        })
        .collect();
    let mut cs = Scalar::zero();
    let mut up = Scalar::one();
    for b in &builders {
        cs += up * b.conjunction_commitment_scalars()[0];
        up *= Scalar::from(digit_base(l, u));
    }
    let ped = PedersenParameters::<G1Projective, 1>::new(&mut rng(0x5000));
    let main = CommitmentProofBuilder::generate_proof_commitments(&mut r, Message::<1>::from(linked_scalar), &[Some(cs)], &ped);
    let mut cb = ChallengeBuilder::new().with(&main).with(&*p);
    for b in &builders {
        cb.consume(b);
    }
    let ch = cb.finish();
    let main_proof = main.generate_proof_response(ch);
    let digit_proofs: Vec<SignatureProof<1>> = builders.into_iter().map(|b| b.generate_proof_response(ch)).collect();
    let mut bytes = Vec::new();
    for dp in &digit_proofs {
        bytes.extend_from_slice(&wire::enc(dp));
    }
    let rc: RangeConstraint = wire::dec(&bytes).map_err(|e| Fail::new("harness/assembled-constraint-undecodable", e))?;
    ensure!(main_proof.verify_knowledge_of_opening(&ped, ch), "harness/assembled-main-proof-invalid", "attacker's own main proof does not verify");
    let expected = main_proof.conjunction_response_scalars()[0];

    let lib = rc.verify_range_constraint(&p, ch, expected);
    let rimg = Image { bytes: bytes.clone(), atoms: Image::must(&rc).atoms };
    let reference = range_ref(&pka, digit_base(l, u) as usize, &rimg, &ch.to_scalar(), &expected);
    rec.eval(1);
    let by_construction = all_true && link_is_true;
    ensure!(reference == by_construction, "harness/reference-disagrees-with-construction", "assembled constraint: reference {} vs construction {} ({} / {})", reference, by_construction, plan_label, link_label);
    if lib != reference {
        return Err(Fail::new(
            if reference { "C13/valid-assembled-constraint-rejected" } else { "C13/invalid-assembled-constraint-accepted" },
            format!("verify_range_constraint returned {} for an assembled constraint ({}; link {}), relation evaluates to {}", lib, plan_label, link_label, reference),
        )
        .obs(lib.to_string(), reference.to_string()));
    }
    if lib && !linked_in_range {
        return Err(Fail::new(
            "C13/accepted-for-value-outside-range",
            format!("a constraint built from published digit signatures ({}; L={}, u={}) verifies for a linked value outside [0, 2^63): digits encode {}", plan_label, l, u, encoded),
        )
        .obs("accepted", "no acceptance outside [0, 2^63)"));
    }
    rec.class(&format!("assembled/{}/{}/{}", plan_label, link_label, if lib { "accept" } else { "reject" }));
    rec.nontrivial((plan_label, link_label, claim.clone()));
    rec.sample(&format!("assembled/{}", plan_label), || json!({"plan": plan_label, "digits": claim, "encoded_value": encoded.to_string(), "link": link_label, "accepted": lib, "L": l, "u": u}));
    Ok(())
}

// ------------------------------------------------------------------------------------------------
// (d) parameter validation
// ------------------------------------------------------------------------------------------------

#[derive(Clone, Debug, Serialize, Deserialize)]
pub struct ValCase {
    pos: u16,
    kind: u8, // 0: another digit's signature, 1: signature under another key, 2: re-randomisation of itself, 3: untouched
    other: u16,
    seed: u64,
}

fn val_gen(ctx: &Ctx) -> Vec<ValCase> {
    let p = range_params(0);
    let (_, u) = observed_l_u(&p);
    let mut out = vec![ValCase { pos: 0, kind: 3, other: 0, seed: ctx.seed }];
    let positions: Vec<usize> = match ctx.tier {
        Tier::Quick => {
            let mut v = vec![0, 1, u / 2, u - 2, u - 1];
            let mut s = ctx.seed | 1;
            for _ in 0..5 {
                s = s.wrapping_mul(6364136223846793005).wrapping_add(1442695040888963407);
                v.push((s >> 33) as usize % u);
            }
            v
        }
        Tier::Thorough => (0..u).collect(),
    };
    for pos in positions {
        for kind in 0..3u8 {
            out.push(ValCase { pos: pos as u16, kind, other: ((pos + 1 + (ctx.seed as usize % (u - 1))) % u) as u16, seed: ctx.seed ^ (pos as u64) << 8 });
        }
    }
    out
}

fn val_oracle(c: &ValCase, rec: &Rec) -> R {
    let p = range_params(0);
    let mut img = Image::must(&*p);
    let (_, u) = observed_l_u(&p);
    let pos = c.pos as usize % u;
    let label = match c.kind {
        0 => {
            let mut o = c.other as usize % u;
            if o == pos {
                o = (pos + 1) % u;
            }
            let s1 = img.get(&format!("digit_signatures.{}.sigma1", o)).to_vec();
            let s2 = img.get(&format!("digit_signatures.{}.sigma2", o)).to_vec();
            img.set(&format!("digit_signatures.{}.sigma1", pos), &s1);
            img.set(&format!("digit_signatures.{}.sigma2", pos), &s2);
            "other-digits-signature"
        }
        1 => {
            let q = Image::must(&*range_params(1));
            img.set(&format!("digit_signatures.{}.sigma1", pos), q.get(&format!("digit_signatures.{}.sigma1", pos)));
            img.set(&format!("digit_signatures.{}.sigma2", pos), q.get(&format!("digit_signatures.{}.sigma2", pos)));
            "signature-under-other-key"
        }
        2 => {
            let k = rand_nonzero_scalar(c.seed);
            let s1 = G1Projective::from(img.g1(&format!("digit_signatures.{}.sigma1", pos))) * k;
            let s2 = G1Projective::from(img.g1(&format!("digit_signatures.{}.sigma2", pos))) * k;
            img.set(&format!("digit_signatures.{}.sigma1", pos), &s1.to_affine().to_compressed());
            img.set(&format!("digit_signatures.{}.sigma2", pos), &s2.to_affine().to_compressed());
            "re-randomised-signature"
        }
        _ => "untouched",
    };
    let params: RangeConstraintParameters = wire::dec(&img.bytes).map_err(|e| Fail::new("harness/substituted-parameters-undecodable", e))?;
    // reference: every signature verifies on its own index under the set's own key
    let pk = PkAtoms::from_image(&img, "public_key");
    let mut all = true;
    for i in 0..u {
        all &= ps_verify(
            &pk,
            &[crate::engine::refmath::u64_scalar(i as u64)],
            &img.g1(&format!("digit_signatures.{}.sigma1", i)),
            &img.g1(&format!("digit_signatures.{}.sigma2", i)),
        );
    }
    let by_construction = c.kind >= 2;
    ensure!(all == by_construction, "harness/reference-disagrees-with-construction", "validate reference {} for {}", all, label);
    let lib = params.validate().is_ok();
    rec.eval(1);
    if lib != all {
        return Err(Fail::new(
            if all { "C13/validate-rejects-valid-parameters" } else { "C13/validate-accepts-invalid-parameters" },
            format!("validate() returned ok={} for a parameter set with {} at position {} (reference: {})", lib, label, pos, all),
        )
        .obs(lib.to_string(), all.to_string()));
    }
    rec.class(&format!("validate/{}/{}", label, if lib { "ok" } else { "err" }));
    rec.nontrivial((label, pos));
    rec.sample(&format!("validate/{}", label), || json!({"position": pos, "substitution": label, "validate_ok": lib}));
    Ok(())
}

// ------------------------------------------------------------------------------------------------
// (e) jointly crafted digit proofs whose pairing errors cancel
// ------------------------------------------------------------------------------------------------

#[derive(Clone, Debug, Serialize, Deserialize)]
pub struct CancelCase {
    target: LinkTarget,
    in_range_target: Option<u64>,
    seed: u64,
}

fn cancel_strategy(_t: Tier) -> impl Strategy<Value = CancelCase> {
    let lt = prop_oneof![Just(LinkTarget::TwoPow63), (1u16..).prop_map(LinkTarget::TwoPow63Plus), Just(LinkTarget::MinusOne)];
    (lt, proptest::option::of(any::<u64>()), any::<u64>()).prop_map(|(target, in_range_target, seed)| CancelCase { target, in_range_target, seed })
}

fn cancel_oracle(c: &CancelCase, rec: &Rec) -> R {
    use crate::model::forger::{cancelling_pair, digit_subs, write_sub};
    let m = crate::model::proto::merchant(0);
    let params = m.cfg.range_constraint_parameters();
    let (l, u) = observed_l_u(params);
    // template: layout of an honest constraint
    let rb = RangeConstraintBuilder::generate_constraint_commitments(1, params, &mut rng(1)).expect("in range");
    let template = Image::must(&rb.generate_constraint_response(challenge_from_seed(1)));
    let to_scalar = |x: u128| -> Scalar {
        let mut b = [0u8; 32];
        b[..16].copy_from_slice(&x.to_le_bytes());
        Scalar::from_bytes(&b).unwrap()
    };
    let (target, label) = match (&c.in_range_target, &c.target) {
        (Some(v), _) => (to_scalar((*v >> 1) as u128), "in-range-target"),
        (None, LinkTarget::TwoPow63) => (to_scalar(1u128 << 63), "2^63"),
        (None, LinkTarget::TwoPow63Plus(k)) => (to_scalar((1u128 << 63) + *k as u128), "2^63+k"),
        (None, _) => (-Scalar::one(), "-1"),
    };
    // digits all 0 with honest blinded signatures, then digits 0 and 1 replaced by the cancelling pair
    let (mut subs, cs) = digit_subs(&m, &vec![0u64; l], &Scalar::zero(), c.seed, 7);
    cancelling_pair(&m.range_img, &mut subs, &target, digit_base(l, u), c.seed);
    let ped = PedersenParameters::<G1Projective, 1>::new(&mut rng(0x5000));
    let main = CommitmentProofBuilder::generate_proof_commitments(&mut rng(c.seed), Message::<1>::from(target), &[Some(cs)], &ped);
    let ch = ChallengeBuilder::new().with(&main).with(params).with_bytes(c.seed.to_le_bytes()).finish();
    let main_proof = main.generate_proof_response(ch);
    let mut img = template.clone();
    for (j, (b1, b2, sub)) in subs.iter_mut().enumerate() {
        sub.respond(&ch.to_scalar());
        let p = format!("digit_proofs.{}.", j);
        img.set(&format!("{}blinded_signature.sigma1", p), &b1.to_affine().to_compressed());
        img.set(&format!("{}blinded_signature.sigma2", p), &b2.to_affine().to_compressed());
        write_sub(&mut img, &format!("{}commitment_proof.", p), sub);
    }
    let rc: RangeConstraint = wire::dec(&img.bytes).map_err(|e| Fail::new("harness/assembled-constraint-undecodable", e))?;
    let expected = main_proof.conjunction_response_scalars()[0];
    let lib = rc.verify_range_constraint(params, ch, expected);
    let reference = range_ref(&m.range_pk, digit_base(l, u) as usize, &img, &ch.to_scalar(), &expected);
    rec.eval(1);
    ensure!(!reference, "harness/reference-disagrees-with-construction", "cancelling pair satisfies the per-digit relations");
    // sanity of the construction: the response scalars do sum to the linked response
    if lib {
        return Err(Fail::new(
            if c.in_range_target.is_some() { "C13/invalid-assembled-constraint-accepted" } else { "C13/accepted-for-value-outside-range" },
            format!("a constraint with two jointly crafted digit proofs (individually false pairing equations whose errors cancel) verifies for the linked value {}", label),
        )
        .obs("accepted", "rejected"));
    }
    rec.class(&format!("cancelling-pair/{}/reject", label));
    rec.nontrivial((label, c.seed));
    rec.sample(&format!("cancelling-pair/{}", label), || json!({"target": label, "L": l, "u": u}));
    Ok(())
}

pub fn checks() -> Vec<CheckDef> {
    vec![
        prop_check(
            "cancelling-digit-pairs",
            "attacker-assembled constraints in which digit proofs 0 and 1 are crafted jointly (sigma1_j = h^{a_j}, sigma2_0 + sigma2_1 = S^{a0+a1} h^{a0 r0 + a1 r1} with a0 M0 + a1 M1 = 0, commitments to arbitrary field elements M0 + u M1 = target): every single pairing equation is false, their unweighted product is the identity; targets 2^63, 2^63+k, -1 and random in-range values; oracle: verdict == per-digit reference (false), no acceptance for an out-of-range linked value; distinct by (target, seed)",
            &["cancelling-pair/-1/reject", "cancelling-pair/2^63/reject"],
            (48, 2000),
            cancel_strategy,
            cancel_oracle,
        ),
        enum_check(
            "prover-sign-test",
            "enumerated i64 boundary set {i64::MIN, -2^62, -129..-1, 0, 1, 127, 128, 128^k-1, 128^k, 128^k+1, -(128^k), 2^62, 2^63-1} plus xorshift-random i64; oracle: Err(ValueOutsideRange(v)) <=> v < 0 (no panic), accepted values give a constraint verifying against c*v+s; distinct by value",
            &["negative/refused", "in-range/accepted"],
            false,
            prover_gen,
            prover_oracle,
        ),
        prop_check(
            "honest-links",
            "generated (value over the range lattice, main proof type, N, linked slot, mismatch in {none, other slot's response scalar, fresh parameters, other challenge, shifted response}); oracle: verify_range_constraint == independent evaluation (9 digit signature-proof relations + weighted response sum) == expected by construction; distinct by (mismatch, value, type, N, slot)",
            &["honest/linked/accept", "honest/other-slot/reject", "honest/fresh-params/reject", "honest/other-challenge/reject"],
            (160, 8000),
            honest_strategy,
            honest_oracle,
        ),
        prop_check(
            "assembled",
            "attacker-assembled constraints: L digit proofs built on the public SignatureProofBuilder<1> over any published digit signature (L, u read from the encodings): all-maximal digits, arbitrary published digits, a signature on d shown for d' (incl. d' >= u), a self-signed digit >= u (proven under either key); main commitment proof linked to the encoded value, encoded+1, 2^63, 2^63+k or -1; oracle: verdict == independent relation evaluation == construction, and no acceptance for a linked value outside [0, 2^63) (catches L or u changes); distinct by (plan, link, digits)",
            &["assembled/all-maximal-digits/encoded-value/accept", "assembled/signature-claimed-for-other-digit/encoded-value/reject"],
            (200, 8000),
            asm_strategy,
            asm_oracle,
        ),
        enum_check(
            "validate",
            "enumerated parameter sets obtained from an honest one by replacing the signature at a position (quick: boundary + random positions; thorough: all positions) by another digit's signature, by the same digit's signature under another key, or by a re-randomisation of itself; oracle: validate() is Ok <=> every signature verifies on its own index under the set's key (independent pairing check); distinct by (substitution, position)",
            &["validate/other-digits-signature/err", "validate/re-randomised-signature/ok"],
            false,
            val_gen,
            val_oracle,
        ),
    ]
}
