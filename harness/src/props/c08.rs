//! C08 — Blind signing yields a signature on exactly the message proven in the request.

use super::common::*;
use crate::engine::refmath::{ps_verify, schnorr};
use crate::engine::wire::{self, Image, Kind};
use crate::engine::{pick_idx, prop_check, CheckDef, Fail, Rec, Tier, R};
use bls12_381::{G1Projective, Scalar};
use group::Group;
use proptest::prelude::*;
use serde::{Deserialize, Serialize};
use serde_json::json;
use zkchannels_crypto::{
    pointcheval_sanders::verif_hooks::commitment_of,
    proofs::{ChallengeBuilder, SignatureRequestProof, SignatureRequestProofBuilder},
    Message,
};

#[derive(Clone, Debug, Serialize, Deserialize, Hash, PartialEq, Eq)]
pub enum Tamper {
    None,
    /// (atom selector, how): replace one atom of the proof encoding
    Atom(u16, AtomChange),
    /// swap the commitment and the scalar commitment
    SwapCT,
    /// challenge derived from a different transcript
    OtherChallenge(u8),
    /// verify under another signer's key
    OtherKey,
    /// tampered atom AND the challenge re-derived from the tampered proof
    AtomRederive(u16, AtomChange),
    /// C += δ·Y_i together with z_i += c·δ: the relation still holds, for the *other* commitment
    /// (to m + δ·e_i under the same blinding factor); with `false` the response moves the other
    /// way and the relation is broken
    MovedRequest(u16, ScSpec, bool),
}

#[derive(Clone, Debug, Serialize, Deserialize, Hash, PartialEq, Eq)]
pub enum AtomChange {
    Shift(ScSpec),
    Random(u64),
    Zero,
    Neighbour,
    /// G1 atoms only: add the order-3 curve point (0, 2), which lies outside the prime-order
    /// subgroup — the encoding is canonical and on the curve, and a verifier equation that is
    /// multiplied by a challenge divisible by 3 cannot see the difference
    SmallOrder,
    /// the negated element / scalar (differs only in the sign bit of a compressed point)
    Negate,
}

#[derive(Clone, Debug, Serialize, Deserialize)]
pub struct Case {
    n_idx: u8,
    key: u8,
    msg: Vec<ScSpec>,
    seed: u64,
    tamper: Tamper,
    coord: u16,
    delta: ScSpec,
}

fn atom_change() -> impl Strategy<Value = AtomChange> {
    prop_oneof![
        3 => delta_spec().prop_map(AtomChange::Shift),
        2 => any::<u64>().prop_map(AtomChange::Random),
        1 => Just(AtomChange::Zero),
        1 => Just(AtomChange::Neighbour),
        1 => Just(AtomChange::SmallOrder),
        2 => Just(AtomChange::Negate),
    ]
}

fn strategy(_t: Tier) -> impl Strategy<Value = Case> {
    let tamper = prop_oneof![
        2 => Just(Tamper::None),
        6 => (any::<u16>(), atom_change()).prop_map(|(i, c)| Tamper::Atom(i, c)),
        1 => Just(Tamper::SwapCT),
        1 => any::<u8>().prop_map(Tamper::OtherChallenge),
        1 => Just(Tamper::OtherKey),
        2 => (any::<u16>(), atom_change()).prop_map(|(i, c)| Tamper::AtomRederive(i, c)),
        2 => (any::<u16>(), delta_spec(), prop_oneof![3 => Just(true), 1 => Just(false)]).prop_map(|(i, d, k)| Tamper::MovedRequest(i, d, k)),
    ];
    (0u8..6, 0u8..3, msg_specs(), any::<u64>(), tamper, any::<u16>(), delta_spec()).prop_map(
        |(n_idx, key, msg, seed, tamper, coord, delta)| Case {
            n_idx,
            key,
            msg,
            seed,
            tamper,
            coord,
            delta,
        },
    )
}

/// Apply a change to atom `i` of an image; returns None if the change is a no-op.
pub fn change_atom(img: &Image, i: usize, ch: &AtomChange) -> Option<Vec<u8>> {
    let a = &img.atoms[i];
    let old = img.at(i).to_vec();
    let new: Vec<u8> = match (a.kind, ch) {
        (Kind::B32, AtomChange::Shift(d)) => (wire::sc(&old)? + nonzero(d)).to_bytes().to_vec(),
        (Kind::B32, AtomChange::Random(s)) => rand_scalar(*s).to_bytes().to_vec(),
        (Kind::B32, AtomChange::Zero) => Scalar::zero().to_bytes().to_vec(),
        (Kind::G1, AtomChange::Shift(d)) => {
            let p = G1Projective::from(wire::g1(&old)?) + G1Projective::generator() * nonzero(d);
            p.to_atom()
        }
        (Kind::G1, AtomChange::Random(s)) => (G1Projective::generator() * rand_nonzero_scalar(*s)).to_atom(),
        (Kind::G1, AtomChange::Zero) => G1Projective::identity().to_atom(),
        (Kind::G1, AtomChange::Negate) => (-G1Projective::from(wire::g1(&old)?)).to_atom(),
        (Kind::G2, AtomChange::Negate) => (-bls12_381::G2Projective::from(wire::g2(&old)?)).to_atom(),
        (Kind::B32, AtomChange::Negate) => (-wire::sc(&old)?).to_bytes().to_vec(),
        (Kind::G1, AtomChange::SmallOrder) => {
            let mut e = [0u8; 48];
            e[0] = 0x80;
            let p3: Option<bls12_381::G1Affine> = bls12_381::G1Affine::from_compressed_unchecked(&e).into();
            bls12_381::G1Affine::from(G1Projective::from(wire::g1(&old)?) + G1Projective::from(p3?)).to_compressed().to_vec()
        }
        (Kind::G2, AtomChange::Shift(d)) => {
            let p = bls12_381::G2Projective::from(wire::g2(&old)?) + bls12_381::G2Projective::generator() * nonzero(d);
            p.to_atom()
        }
        (Kind::G2, AtomChange::Random(s)) => (bls12_381::G2Projective::generator() * rand_nonzero_scalar(*s)).to_atom(),
        (Kind::G2, AtomChange::Zero) => bls12_381::G2Projective::identity().to_atom(),
        (_, AtomChange::Neighbour) => {
            // copy the bytes of the next atom of the same kind (cyclically)
            let n = img.atoms.len();
            let j = (1..n).map(|d| (i + d) % n).find(|&j| img.atoms[j].kind == a.kind)?;
            img.at(j).to_vec()
        }
        _ => return None,
    };
    if new == old {
        None
    } else {
        Some(img.with_at(i, &new))
    }
}

/// Indexes of the atoms that can be replaced (everything but length prefixes).
pub fn replaceable(img: &Image) -> Vec<usize> {
    (0..img.atoms.len())
        .filter(|&i| matches!(img.atoms[i].kind, Kind::B32 | Kind::G1 | Kind::G2))
        .collect()
}

fn run<const N: usize>(c: &Case, rec: &Rec) -> R {
    let k = keys::<N>(c.key as u64);
    let pk = k.kp.public_key();
    let mut r = rng(c.seed);
    let m = scalars::<N>(&c.msg);

    let builder = SignatureRequestProofBuilder::<N>::generate_proof_commitments(&mut r, Message::new(m), &[None; N], pk);
    let ch_builder = ChallengeBuilder::new().with(&builder).finish();
    let b = builder.message_blinding_factor();
    let proof = builder.generate_proof_response(ch_builder);
    let ch = ChallengeBuilder::new().with(&proof).finish();
    ensure!(
        ch.to_scalar() == ch_builder.to_scalar(),
        "C08/builder-proof-challenge-differ",
        "challenge from the builder differs from the challenge from the finished proof"
    );
    let img = Image::must(&proof);
    let (h, gs) = k.pk.g1_params();

    // independent check of what the honest proof states
    let reference_com = crate::engine::refmath::pedersen(&h, &gs, &m, &b.as_scalar());
    ensure!(
        img.get("commitment_proof.commitment") == reference_com.to_atom().as_slice(),
        "C08/request-commitment-not-pedersen",
        "commitment in the request is not the Pedersen commitment under (g1, Y1..YN)"
    );

    let edge = c.msg[..N].iter().any(|s| s.is_edge());
    let label: String;
    match &c.tamper {
        Tamper::None => {
            rec.eval(1);
            let vbm = proof.verify_knowledge_of_opening(pk, ch);
            let Some(vbm) = vbm else {
                return Err(Fail::new("C08/honest-request-rejected", format!("honest request rejected (N={})", N)));
            };
            ensure!(
                Image::must(&commitment_of(&vbm)).bytes == img.get("commitment_proof.commitment"),
                "C08/blind-signable-is-not-the-proven-commitment",
                "the blind-signable value is not the commitment the proof is about"
            );
            let sig = vbm.blind_sign(&k.kp, &mut r).unblind(b);
            let lib = sig.verify(pk, &Message::new(m));
            let reference = ps_verify(&k.pk, &m, &sig.sigma1(), &sig.sigma2());
            rec.eval(2);
            ensure!(
                lib && reference,
                "C08/unblinded-signature-invalid",
                "blind_sign(..).unblind(bf) does not verify on the requester's message (lib={}, reference={}, N={})",
                lib,
                reference,
                N
            );
            // on no tuple differing in one coordinate
            for i in 0..N {
                let mut m2 = m;
                m2[i] += if i == pick_idx(c.coord, N) { nonzero(&c.delta) } else { Scalar::one() };
                let lib2 = sig.verify(pk, &Message::new(m2));
                let ref2 = ps_verify(&k.pk, &m2, &sig.sigma1(), &sig.sigma2());
                rec.eval(2);
                ensure!(
                    !lib2 && !ref2,
                    "C08/unblinded-signature-verifies-on-other-message",
                    "signature verifies on a tuple differing in coordinate {} (lib={}, reference={})",
                    i,
                    lib2,
                    ref2
                );
            }
            // unblinding with another factor must not give a signature on the message
            let sig_bad = proof
                .verify_knowledge_of_opening(pk, ch)
                .unwrap()
                .blind_sign(&k.kp, &mut r)
                .unblind(bf(&(b.as_scalar() + nonzero(&c.delta))));
            ensure!(
                !sig_bad.verify(pk, &Message::new(m)),
                "C08/wrong-factor-unblinds",
                "unblinding with a different factor still verifies"
            );
            label = "honest".into();
            if N >= 2 && edge {
                rec.nontrivial((N, c.key, c.msg[..N].to_vec(), "honest"));
            }
        }
        Tamper::OtherChallenge(x) => {
            let ch2 = ChallengeBuilder::new().with(&proof).with_bytes([*x]).finish();
            rec.eval(1);
            ensure!(
                proof.verify_knowledge_of_opening(pk, ch2).is_none(),
                "C08/accepted-under-other-challenge",
                "request accepted under a challenge from another transcript"
            );
            label = "other-challenge".into();
            rec.nontrivial((N, c.key, "other-challenge", *x));
        }
        Tamper::OtherKey => {
            let k2 = keys::<N>(c.key as u64 + 17);
            rec.eval(1);
            ensure!(
                proof.verify_knowledge_of_opening(k2.kp.public_key(), ch).is_none(),
                "C08/accepted-under-other-key",
                "request accepted under another signer's key"
            );
            label = "other-key".into();
            rec.nontrivial((N, c.key, "other-key"));
        }
        Tamper::MovedRequest(sel, d, keep) => {
            let i = pick_idx(*sel, N);
            let delta = nonzero(d);
            let cs = ch.to_scalar();
            let mut i2 = img.clone();
            let com2 = reference_com + gs[i] * delta;
            i2.set("commitment_proof.commitment", &com2.to_atom());
            let zi = img.list("commitment_proof.message_response_scalars")[i];
            let z = wire::sc(img.at(zi)).expect("z_i");
            i2.set_at(zi, &(if *keep { z + cs * delta } else { z - cs * delta }).to_bytes());
            let p2 = wire::dec::<SignatureRequestProof<N>>(&i2.bytes).map_err(|e| Fail::new("harness/moved-request-undecodable", e))?;
            let zbf = i2.scalar("commitment_proof.blinding_factor_response_scalar");
            let zs = i2.scalars("commitment_proof.message_response_scalars");
            let tp = G1Projective::from(wire::g1(i2.get("commitment_proof.scalar_commitment")).expect("T"));
            let reference = schnorr(&h, &gs, &com2, &tp, &zbf, &zs, &cs);
            ensure!(reference == *keep, "harness/reference-disagrees-with-construction", "moved request: relation {} but constructed to be {}", reference, keep);
            let got = p2.verify_knowledge_of_opening(pk, ch);
            rec.eval(1);
            match got {
                None => {
                    ensure!(!*keep, "C08/valid-request-rejected", "a request whose Schnorr relation holds (commitment and response moved together) was refused (N={})", N);
                    label = "moved-request/relation-broken".into();
                }
                Some(vbm) => {
                    ensure!(*keep, "C08/tampered-request-accepted", "request with commitment and response moved oppositely yields a blind-signable value (N={})", N);
                    ensure!(
                        Image::must(&commitment_of(&vbm)).bytes == com2.to_atom(),
                        "C08/blind-signable-is-not-the-proven-commitment",
                        "the blind-signable value is not the commitment the accepted proof is about (request moved to another commitment)"
                    );
                    let sig = vbm.blind_sign(&k.kp, &mut r).unblind(b);
                    let mut m2 = m;
                    m2[i] += delta;
                    rec.eval(4);
                    let on_new = sig.verify(pk, &Message::new(m2)) && ps_verify(&k.pk, &m2, &sig.sigma1(), &sig.sigma2());
                    let on_old = sig.verify(pk, &Message::new(m)) || ps_verify(&k.pk, &m, &sig.sigma1(), &sig.sigma2());
                    ensure!(on_new, "C08/unblinded-signature-invalid", "signature on the moved request does not verify on the tuple its commitment commits to");
                    ensure!(!on_old, "C08/unblinded-signature-verifies-on-other-message", "signature on the moved request verifies on the original tuple");
                    label = "moved-request/relation-kept".into();
                }
            }
            rec.nontrivial((N, c.key, label.clone(), i));
        }
        Tamper::SwapCT | Tamper::Atom(..) | Tamper::AtomRederive(..) => {
            let (bytes, what, rederive) = match &c.tamper {
                Tamper::SwapCT => {
                    let mut i2 = img.clone();
                    let cb = img.get("commitment_proof.commitment").to_vec();
                    let tb = img.get("commitment_proof.scalar_commitment").to_vec();
                    i2.set("commitment_proof.commitment", &tb);
                    i2.set("commitment_proof.scalar_commitment", &cb);
                    (Some(i2.bytes), "swap-C-T".to_string(), false)
                }
                Tamper::Atom(sel, chg) | Tamper::AtomRederive(sel, chg) => {
                    let idxs = replaceable(&img);
                    let i = idxs[pick_idx(*sel, idxs.len())];
                    (
                        change_atom(&img, i, chg),
                        format!("{}:{}", img.atoms[i].field, match chg {
                            AtomChange::Shift(_) => "shift",
                            AtomChange::Random(_) => "random",
                            AtomChange::Zero => "zero",
                            AtomChange::Neighbour => "neighbour",
                            AtomChange::SmallOrder => "plus-order-3-point",
                            AtomChange::Negate => "negated",
                        }),
                        matches!(c.tamper, Tamper::AtomRederive(..)),
                    )
                }
                _ => unreachable!(),
            };
            let Some(bytes) = bytes else {
                rec.class("tamper/no-op");
                return Ok(());
            };
            let decoded = wire::dec::<SignatureRequestProof<N>>(&bytes);
            match decoded {
                Err(_) => {
                    rec.class("tamper/decode-rejected");
                    label = format!("tamper/{}", what);
                }
                Ok(p2) => {
                    let ch2 = if rederive { ChallengeBuilder::new().with(&p2).finish() } else { ch };
                    let i2 = Image::must(&p2);
                    // an atom that is not a valid subgroup element can never satisfy the relation
                    let reference = match (wire::g1(i2.get("commitment_proof.commitment")), wire::g1(i2.get("commitment_proof.scalar_commitment"))) {
                        (Some(cp), Some(tp)) => {
                            let zbf = i2.scalar("commitment_proof.blinding_factor_response_scalar");
                            let z = i2.scalars("commitment_proof.message_response_scalars");
                            schnorr(&h, &gs, &G1Projective::from(cp), &G1Projective::from(tp), &zbf, &z, &ch2.to_scalar())
                        }
                        _ => false,
                    };
                    if reference {
                        // the changed atom is none the relation speaks about (a proof type carrying
                        // further fields): the verifier may accept, but what it hands out must still be
                        // the commitment the proof is about, and signing it must sign the proven tuple
                        let in_relation = ["commitment", "scalar_commitment", "blinding_factor_response_scalar", "message_response_scalars"];
                        ensure!(
                            !in_relation.iter().any(|f| what.starts_with(&format!("{}:", f))),
                            "harness/reference-disagrees-with-construction",
                            "single-atom change {} left the Schnorr relation satisfied",
                            what
                        );
                        rec.eval(1);
                        if let Some(vbm) = p2.verify_knowledge_of_opening(pk, ch2) {
                            ensure!(
                                Image::must(&commitment_of(&vbm)).bytes == i2.get("commitment_proof.commitment"),
                                "C08/blind-signable-is-not-the-proven-commitment",
                                "after changing atom {} the blind-signable value is not the commitment the accepted proof is about",
                                what
                            );
                            let sig = vbm.blind_sign(&k.kp, &mut r).unblind(b);
                            ensure!(
                                sig.verify(pk, &Message::new(m)) && ps_verify(&k.pk, &m, &sig.sigma1(), &sig.sigma2()),
                                "C08/unblinded-signature-invalid",
                                "after changing atom {} the blind signature does not verify on the proven tuple",
                                what
                            );
                        }
                        rec.class("tamper/atom-outside-the-relation");
                        rec.nontrivial((N, c.key, what.clone()));
                        return Ok(());
                    }
                    let got = p2.verify_knowledge_of_opening(pk, ch2);
                    rec.eval(1);
                    if got.is_some() != reference {
                        return Err(Fail::new(
                            "C08/tampered-request-accepted",
                            format!("tampered request ({}) yields a blind-signable value although the Schnorr relation is false (N={})", what, N),
                        )
                        .obs("Some", "None"));
                    }
                    label = format!("tamper/{}{}", what, if rederive { "+rederived-challenge" } else { "" });
                }
            }
            rec.nontrivial((N, c.key, label.clone()));
        }
    }
    rec.class(&label);
    rec.class(&format!("N={}", N));
    rec.sample(&label, || {
        json!({"N": N, "key": c.key, "message": c.msg[..N].iter().map(|s| s.label()).collect::<Vec<_>>(), "tamper": format!("{:?}", c.tamper)})
    });
    Ok(())
}

fn oracle(c: &Case, rec: &Rec) -> R {
    with_n!(n_of(c.n_idx), run(c, rec))
}

fn checks_main() -> Vec<CheckDef> {
    vec![prop_check(
        "blind-sign",
        "cases = (N, key, message over edge/random scalars, one of {honest request, one wire atom of the request replaced (shift/random/zero/neighbour), C<->T swapped, challenge from another transcript, other key, atom replaced + challenge re-derived, commitment moved by delta*Y_i with the response moved together (relation kept for another commitment) or oppositely}); moved request kept => Some, value == the moved commitment, signature verifies on m+delta*e_i and not on m; oracle: honest => Some, blind-signable value == commitment atom of the request == independent Pedersen value, blind_sign+unblind verifies (library and reference pairing check) on the message and on no single-coordinate change; tampered => library verdict == independent Schnorr evaluation on the wire atoms (false by construction); non-trivial = honest with N>=2 and an edge entry, or any tampered case; distinct by (N, key, tamper label)",
        &["honest", "moved-request/relation-kept", "moved-request/relation-broken"],
        (1200, 150_000),
        strategy,
        oracle,
    )]
}

// ---- a blind-signable value must not be obtainable without a verifying proof --------------------
//
// `VerifiedBlindedMessage` has no public constructor; the only way to one is
// `SignatureRequestProof::verify_knowledge_of_opening`. A conversion trait acquired later (Deserialize,
// Default, From<BlindedMessage>, From<Commitment>) would be a second way. Whether the type has such a
// trait is probed at compile time with autoref specialisation (the probe compiles either way); when
// it has, generated bare commitments are pushed through it and blind-signed.

struct Probe<T>(std::marker::PhantomData<T>);
trait ViaDeserialize<T> {
    fn obtain(&self, bytes: &[u8]) -> Option<Result<T, String>>;
}
impl<T: serde::de::DeserializeOwned> ViaDeserialize<T> for Probe<T> {
    fn obtain(&self, bytes: &[u8]) -> Option<Result<T, String>> {
        Some(wire::dec::<T>(bytes))
    }
}
trait NoDeserialize<T> {
    fn obtain(&self, bytes: &[u8]) -> Option<Result<T, String>>;
}
impl<T> NoDeserialize<T> for &Probe<T> {
    fn obtain(&self, _bytes: &[u8]) -> Option<Result<T, String>> {
        None
    }
}
struct ProbeFrom<T, S>(std::marker::PhantomData<(T, S)>);
trait ViaFrom<T, S> {
    fn convert(&self, s: S) -> Option<T>;
}
impl<S, T: From<S>> ViaFrom<T, S> for ProbeFrom<T, S> {
    fn convert(&self, s: S) -> Option<T> {
        Some(T::from(s))
    }
}
trait NoFrom<T, S> {
    fn convert(&self, s: S) -> Option<T>;
}
impl<T, S> NoFrom<T, S> for &ProbeFrom<T, S> {
    fn convert(&self, _s: S) -> Option<T> {
        None
    }
}
struct ProbeDefault<T>(std::marker::PhantomData<T>);
trait ViaDefault<T> {
    fn make(&self) -> Option<T>;
}
impl<T: Default> ViaDefault<T> for ProbeDefault<T> {
    fn make(&self) -> Option<T> {
        Some(T::default())
    }
}
trait NoDefault<T> {
    fn make(&self) -> Option<T>;
}
impl<T> NoDefault<T> for &ProbeDefault<T> {
    fn make(&self) -> Option<T> {
        None
    }
}

#[derive(Clone, Debug, Serialize, Deserialize)]
pub struct SurfaceCase {
    n_idx: u8,
    key: u8,
    msg: Vec<ScSpec>,
    seed: u64,
    /// 0: bare commitment from Message::blind; 1: commitment of a request whose proof is rejected
    /// (challenge from another transcript); 2: arbitrary group element
    source: u8,
}

fn surface_strategy(_t: Tier) -> impl Strategy<Value = SurfaceCase> {
    (0u8..6, 0u8..3, msg_specs(), any::<u64>(), 0u8..3).prop_map(|(n_idx, key, msg, seed, source)| SurfaceCase { n_idx, key, msg, seed, source })
}

fn surface_run<const N: usize>(c: &SurfaceCase, rec: &Rec) -> R {
    use zkchannels_crypto::pointcheval_sanders::{BlindedMessage, VerifiedBlindedMessage};
    use zkchannels_crypto::pedersen::Commitment;
    let k = keys::<N>(c.key as u64);
    let m = scalars::<N>(&c.msg);
    let bfs = rand_scalar(c.seed ^ 0xb1);
    let blinded: BlindedMessage = Message::new(m).blind(k.kp.public_key(), bf(&bfs));
    let point: G1Projective = match c.source % 3 {
        0 => G1Projective::from_atom(&wire::enc(&blinded)).expect("blinded message is one G1 element"),
        1 => {
            let b = SignatureRequestProofBuilder::<N>::generate_proof_commitments(&mut rng(c.seed), Message::new(m), &[None; N], k.kp.public_key());
            let good = ChallengeBuilder::new().with(&b).finish();
            let proof = b.generate_proof_response(good);
            let other = super::c11::challenge_from_seed(c.seed);
            ensure!(proof.clone_via_bytes().verify_knowledge_of_opening(k.kp.public_key(), other).is_none(), "C08/request-accepted-under-foreign-challenge", "a request proof verified under a challenge from another transcript");
            G1Projective::from_atom(Image::must(&proof).get("commitment_proof.commitment")).unwrap_or_else(|| G1Projective::generator() * bfs)
        }
        _ => G1Projective::generator() * rand_nonzero_scalar(c.seed ^ 0x77),
    };
    let label = ["bare-blinded-message", "commitment-of-rejected-request", "arbitrary-element"][(c.source % 3) as usize];
    rec.eval(1);
    let mut obtained: Vec<(&str, VerifiedBlindedMessage)> = Vec::new();
    // (a) a decoder
    match (&Probe::<VerifiedBlindedMessage>(std::marker::PhantomData)).obtain(&point.to_atom()) {
        None => rec.class("no-decoder(by type)"),
        Some(Err(_)) => rec.class("decoder-refuses"),
        Some(Ok(v)) => obtained.push(("Deserialize", v)),
    }
    // (b) conversions
    match (&ProbeFrom::<VerifiedBlindedMessage, BlindedMessage>(std::marker::PhantomData)).convert(blinded) {
        None => rec.class("no-From<BlindedMessage>(by type)"),
        Some(v) => obtained.push(("From<BlindedMessage>", v)),
    }
    match (&ProbeFrom::<VerifiedBlindedMessage, Commitment<G1Projective>>(std::marker::PhantomData)).convert(commitment_from(&point)) {
        None => rec.class("no-From<Commitment>(by type)"),
        Some(v) => obtained.push(("From<Commitment>", v)),
    }
    match (&ProbeDefault::<VerifiedBlindedMessage>(std::marker::PhantomData)).make() {
        None => rec.class("no-Default(by type)"),
        Some(v) => obtained.push(("Default", v)),
    }
    rec.nontrivial((N, c.key, label, c.seed));
    rec.class(&format!("source/{}", label));
    if let Some((how, v)) = obtained.into_iter().next() {
        // confirm the consequence for the bare blinded message: the signer's blind signature unblinds to
        // a valid signature although no proof was ever verified
        let bs = v.blind_sign(&k.kp, &mut rng(c.seed ^ 0x5));
        let sig = bs.unblind(bf(&bfs));
        let valid = sig.verify(k.kp.public_key(), &Message::new(m));
        return Err(Fail::new(
            format!("C08/blind-signable-without-proof/{}", how),
            format!("a VerifiedBlindedMessage was obtained through {} from a {} (no signature-request proof verified); blind-signing it and unblinding gives a signature that verifies on the requester's message: {}", how, label, valid),
        )
        .obs("Some(blind-signable value)", "no way to a blind-signable value except a verifying request proof"));
    }
    rec.sample(label, || json!({"N": N, "source": label, "obtained": false}));
    Ok(())
}

trait CloneViaBytes: Sized {
    fn clone_via_bytes(&self) -> Self;
}
impl<const N: usize> CloneViaBytes for SignatureRequestProof<N> {
    fn clone_via_bytes(&self) -> Self {
        wire::dec(&wire::enc(self)).expect("round trip of an honest request proof")
    }
}

fn surface_oracle(c: &SurfaceCase, rec: &Rec) -> R {
    with_n!(n_of(c.n_idx), surface_run(c, rec))
}

pub fn checks() -> Vec<CheckDef> {
    let mut v = checks_main();
    v.push(prop_check(
        "no-proofless-blind-signable",
        "generated (N, key, message, blinding factor, source in {bare commitment from Message::blind, commitment of a request whose proof is rejected, arbitrary G1 element}); every way other than a verifying request proof by which the type system would hand out a VerifiedBlindedMessage (Deserialize, From<BlindedMessage>, From<Commitment<G1>>, Default - presence probed at compile time by autoref specialisation, the probe compiles either way) is exercised with that element; oracle: none yields a value (absent by type, or refuses); if one does, the consequence is confirmed by blind_sign + unblind + verify; non-trivial = every case; distinct by (N, key, source, seed)",
        &["source/bare-blinded-message", "source/commitment-of-rejected-request"],
        (300, 20_000),
        surface_strategy,
        surface_oracle,
    ));
    v
}
