//! C06 — An accepted proof is rejected under any other statement, key or context.

use super::c12z::{ctx_input, honest};
use super::common::*;
use crate::engine::wire::{self, Image};
use crate::engine::{pick_idx, prop_check, CheckDef, Fail, Rec, Tier, R};
use crate::model::history::MAXB;
use crate::model::proto;
use bls12_381::Scalar;
use proptest::prelude::*;
use serde::{Deserialize, Serialize};
use serde_json::json;
use std::collections::HashMap;
use std::sync::{Arc, Mutex, OnceLock};
use zkabacus_crypto::{
    customer::{ClosingMessage, Inactive, Locked, Requested, Started},
    ChannelId, ClosingSignature, Context, EstablishProof, Nonce, PayProof, PayToken,
};

// ------------------------------------------------------------------------- (a) establish tuple

#[derive(Clone, Copy, Debug, Serialize, Deserialize, Hash, PartialEq, Eq)]
pub enum EstComp {
    Key,
    CidBit,
    CidFresh,
    CbPlus1,
    CbMinus1,
    CbFresh,
    MbPlus1,
    MbMinus1,
    MbFresh,
    CtxByte,
    CtxLonger,
    CtxFresh,
    /// context input with 1-3 zero bytes appended (padding-like)
    CtxAppendZeros,
    /// a zero byte prepended
    CtxPrependZero,
    /// the SHA3-256 digest of the input used as the input
    CtxDigestOfInput,
    /// the merchant key with a single public element moved
    KeyElement,
}
const EST_COMPS: [EstComp; 19] = [
    EstComp::Key,
    EstComp::KeyElement,
    EstComp::KeyElement,
    EstComp::KeyElement,
    EstComp::KeyElement,
    EstComp::CidBit,
    EstComp::CidFresh,
    EstComp::CbPlus1,
    EstComp::CbMinus1,
    EstComp::CbFresh,
    EstComp::MbPlus1,
    EstComp::MbMinus1,
    EstComp::MbFresh,
    EstComp::CtxByte,
    EstComp::CtxLonger,
    EstComp::CtxFresh,
    EstComp::CtxAppendZeros,
    EstComp::CtxPrependZero,
    EstComp::CtxDigestOfInput,
];

#[derive(Clone, Copy, Debug, Serialize, Deserialize, Hash, PartialEq, Eq)]
pub enum PayComp {
    Key,
    RangeParams,
    RevParams,
    NonceFresh,
    NoncePlus1,
    AmountPlus1,
    AmountMinus1,
    AmountNegated,
    AmountZero,
    CtxByte,
    CtxFresh,
    CtxAppendZeros,
    CtxDigestOfInput,
    /// one public element of the signing key / the revocation parameters / the range key moved
    KeyElement,
    RevElement,
    RangeKeyElement,
}
const PAY_COMPS: [PayComp; 17] = [
    PayComp::Key,
    PayComp::KeyElement,
    PayComp::KeyElement,
    PayComp::RevElement,
    PayComp::RangeKeyElement,
    PayComp::RangeParams,
    PayComp::RevParams,
    PayComp::NonceFresh,
    PayComp::NoncePlus1,
    PayComp::AmountPlus1,
    PayComp::AmountMinus1,
    PayComp::AmountNegated,
    PayComp::AmountZero,
    PayComp::CtxByte,
    PayComp::CtxFresh,
    PayComp::CtxAppendZeros,
    PayComp::CtxDigestOfInput,
];

#[derive(Clone, Debug, Serialize, Deserialize)]
pub enum Case {
    Establish { seed: u64, comp: u8, r: u64 },
    Pay { seed: u64, comp: u8, r: u64 },
    Replay { from: u8, to: u8, what: u8 },
    Closing { sess: u8, other: u8, stage: u8, field: u8, how: u8, r: u64 },
}

fn strategy(t: Tier) -> impl Strategy<Value = Case> {
    let est_seeds = t.pick(40u64, 400);
    let pay_seeds = t.pick(6u64, 60);
    prop_oneof![
        16 => (0..est_seeds, 0u8..19, any::<u64>()).prop_map(|(seed, comp, r)| Case::Establish { seed, comp, r }),
        5 => (0..pay_seeds, 0u8..17, any::<u64>()).prop_map(|(seed, comp, r)| Case::Pay { seed, comp, r }),
        8 => (0u8..4, 0u8..4, 0u8..5).prop_map(|(from, to, what)| Case::Replay { from, to, what }),
        50 => (0u8..4, 0u8..4, 0u8..4, 0u8..4, 0u8..3, any::<u64>()).prop_map(|(sess, other, stage, field, how, r)| Case::Closing { sess, other, stage, field, how, r }),
    ]
}

// --------------------------------------------------------------------------- session pool

pub struct Sess {
    pub m: Arc<proto::Merchant>,
    pub cid: ChannelId,
    pub ctx_seed: u64,
    pub cb: u64,
    pub mb: u64,
    pub amt: i64,
    pub requested: Vec<u8>,
    pub est_proof: Vec<u8>,
    pub closing_est: Vec<u8>,
    pub inactive: Vec<u8>,
    pub token_est: Vec<u8>,
    pub started: Vec<u8>,
    pub closing_pay: Vec<u8>,
    pub locked: Vec<u8>,
    pub token_pay: Vec<u8>,
    /// closing messages from inactive, ready, started, locked
    pub closings: Vec<Vec<u8>>,
}

pub fn session(i: u8) -> Arc<Sess> {
    static C: OnceLock<Mutex<HashMap<u8, Arc<Sess>>>> = OnceLock::new();
    let c = C.get_or_init(|| Mutex::new(HashMap::new()));
    if let Some(s) = c.lock().unwrap().get(&i) {
        return s.clone();
    }
    let seed = 0x60_0000 + i as u64;
    // sessions 0,1 share a merchant (two channels), 2,3 use another merchant; 0 and 2 share balances
    let m = proto::merchant((i / 2) as u64);
    let cid = proto::channel_id(&m, seed);
    let ctx = proto::context(seed);
    let (cb, mb) = if i % 2 == 0 { (500, 300) } else { (70 + i as u64, 900) };
    let amt = if i % 2 == 0 { 20 } else { -5 };
    let (req, proof) = Requested::new(&mut rng(seed), &m.cust, cid, proto::mbal(mb), proto::cbal(cb), &ctx);
    let requested = wire::enc(&req);
    let est_proof = wire::enc(&proof);
    let (closing, vbs) = m.cfg.initialize(&mut rng(seed ^ 1), &cid, proto::cbal(cb), proto::mbal(mb), proof, &ctx).expect("init");
    let closing_est = wire::enc(&closing);
    let inactive = req.complete(closing, &m.cust).ok().expect("complete");
    let inactive_b = wire::enc(&inactive);
    let mut closings = vec![wire::enc(&proto::copy(&inactive).close(&mut rng(seed ^ 2)))];
    let token = m.cfg.activate(&mut rng(seed ^ 3), vbs);
    let token_est = wire::enc(&token);
    let ready = inactive.activate(token, &m.cust).ok().expect("activate");
    closings.push(wire::enc(&proto::copy(&ready).close(&mut rng(seed ^ 4))));
    let (started, msg) = proto::start(&m, ready, amt, &ctx, seed).expect("start");
    let started_b = wire::enc(&started);
    closings.push(wire::enc(&proto::copy(&started).close(&mut rng(seed ^ 5))));
    let (unrevoked, closing2) = m.cfg.allow_payment(&mut rng(seed ^ 6), proto::amount(amt), &msg.nonce, msg.pay_proof, &ctx).expect("allow");
    let closing_pay = wire::enc(&closing2);
    let (locked, lm) = started.lock(closing2, &m.cust).ok().expect("lock");
    let locked_b = wire::enc(&locked);
    closings.push(wire::enc(&proto::copy(&locked).close(&mut rng(seed ^ 7))));
    let token2 = unrevoked.complete_payment(&mut rng(seed ^ 8), &lm.revocation_pair, &lm.revocation_lock_blinding_factor).ok().expect("complete_payment");
    let s = Arc::new(Sess {
        m,
        cid,
        ctx_seed: seed,
        cb,
        mb,
        amt,
        requested,
        est_proof,
        closing_est,
        inactive: inactive_b,
        token_est,
        started: started_b,
        closing_pay,
        locked: locked_b,
        token_pay: wire::enc(&token2),
        closings,
    });
    c.lock().unwrap().insert(i, s.clone());
    s
}

fn reject(rec: &Rec, label: &str, accepted: bool, sig: String, what: String) -> R {
    rec.eval(1);
    if accepted {
        return Err(Fail::new(sig, what).obs("accepted", "rejected"));
    }
    rec.class(label);
    Ok(())
}

fn oracle(c: &Case, rec: &Rec) -> R {
    match c {
        Case::Establish { seed, comp, r } => {
            let h = honest(*seed);
            let comp = EST_COMPS[*comp as usize % 19];
            let ctx0 = Context::new(&h.ctx_input);
            let run = |m: &proto::Merchant, cid: &ChannelId, cb: u64, mb: u64, ctx: &Context| -> bool {
                let p: EstablishProof = wire::dec(&h.est_img.bytes).unwrap();
                m.cfg.initialize(&mut rng(*r), cid, proto::cbal(cb), proto::mbal(mb), p, ctx).is_some()
            };
            ensure!(run(&h.m, &h.cid, h.cb, h.mb, &ctx0), "C06/honest-establish-proof-rejected", "the original establish proof is not accepted for its own tuple");
            let mut cidb = h.cid.to_bytes();
            let (mut m, mut cb, mut mb, mut input) = (h.m.clone(), h.cb, h.mb, h.ctx_input.clone());
            match comp {
                EstComp::Key => m = proto::merchant(h.m.seed + 1),
                EstComp::KeyElement => match proto::merchant_element_variant(h.m.seed, 0, *r) {
                    Some(v) => m = v,
                    None => {
                        rec.class("substitution-not-constructible/establish-key-element");
                        return Ok(());
                    }
                },
                EstComp::CidBit => cidb[(*r % 31) as usize] ^= 1 << ((*r >> 8) % 8),
                EstComp::CidFresh => cidb = crate::engine::refmath::sha3(&[&r.to_le_bytes()]),
                EstComp::CbPlus1 => cb += 1,
                EstComp::CbMinus1 => cb -= 1,
                EstComp::CbFresh => cb = (*r >> 1) | 1 << 20,
                EstComp::MbPlus1 => mb += 1,
                EstComp::MbMinus1 => mb -= 1,
                EstComp::MbFresh => mb = (*r >> 1) | 1 << 20,
                EstComp::CtxByte => {
                    let i = (*r as usize) % input.len();
                    input[i] ^= 1 << ((*r >> 16) % 8);
                }
                EstComp::CtxLonger => input.push(*r as u8),
                EstComp::CtxFresh => input = ctx_input(*r, 1 + (*r % 64) as usize),
                EstComp::CtxAppendZeros => input.extend(std::iter::repeat(0u8).take(1 + (*r % 3) as usize)),
                EstComp::CtxPrependZero => input.insert(0, 0),
                EstComp::CtxDigestOfInput => input = crate::engine::refmath::sha3(&[&input]).to_vec(),
            }
            // near substitutions must really change the encoded scalar
            let cid: ChannelId = wire::dec(&cidb).unwrap();
            if proto::cid_scalar(&cid) == proto::cid_scalar(&h.cid) && matches!(comp, EstComp::CidBit | EstComp::CidFresh) {
                rec.class("substitution-without-effect(cid mod q)");
                return Ok(());
            }
            let acc = run(&m, &cid, cb, mb, &Context::new(&input));
            reject(rec, &format!("establish/{:?}", comp), acc, format!("C06/establish-proof-accepted-under-other-{:?}", comp), format!("an establish proof accepted for one tuple is also accepted after replacing {:?}", comp))?;
            rec.nontrivial(("establish", format!("{:?}", comp), *seed, *r));
            rec.sample(&format!("establish/{:?}", comp), || json!({"proof": "establish", "component": format!("{:?}", comp), "seed": seed}));
        }
        Case::Pay { seed, comp, r } => {
            let h = honest(*seed);
            let comp = PAY_COMPS[*comp as usize % 17];
            let ctx0 = Context::new(&h.ctx_input);
            let run = |m: &proto::Merchant, amt: i64, nonce: &[u8], ctx: &Context| -> Option<bool> {
                let p: PayProof = wire::dec(&h.pay_img.bytes).unwrap();
                let n: Nonce = wire::dec(nonce).ok()?;
                Some(m.cfg.allow_payment(&mut rng(*r), proto::amount(amt), &n, p, ctx).is_some())
            };
            ensure!(run(&h.m, h.amt, &h.nonce_bytes, &ctx0) == Some(true), "C06/honest-pay-proof-rejected", "the original pay proof is not accepted for its own tuple");
            let (mut m, mut amt, mut nonce, mut input) = (h.m.clone(), h.amt, h.nonce_bytes.clone(), h.ctx_input.clone());
            match comp {
                PayComp::Key => m = proto::merchant_variant(h.m.seed, 0),
                PayComp::KeyElement | PayComp::RevElement | PayComp::RangeKeyElement => {
                    let part = match comp {
                        PayComp::KeyElement => 0,
                        PayComp::RevElement => 1,
                        _ => 2,
                    };
                    match proto::merchant_element_variant(h.m.seed, part, *r) {
                        Some(v) => m = v,
                        None => {
                            rec.class(&format!("substitution-not-constructible/{:?}", comp));
                            return Ok(());
                        }
                    }
                }
                PayComp::RevParams => m = proto::merchant_variant(h.m.seed, 1),
                PayComp::RangeParams => m = proto::merchant_variant(h.m.seed, 2),
                PayComp::NonceFresh => nonce = rand_scalar(*r).to_bytes().to_vec(),
                PayComp::NoncePlus1 => nonce = (wire::sc(&nonce).unwrap() + Scalar::one()).to_bytes().to_vec(),
                PayComp::AmountPlus1 => amt += 1,
                PayComp::AmountMinus1 => amt -= 1,
                PayComp::AmountNegated => amt = -amt,
                PayComp::AmountZero => amt = 0,
                PayComp::CtxByte => {
                    let i = (*r as usize) % input.len();
                    input[i] ^= 1 << ((*r >> 16) % 8);
                }
                PayComp::CtxFresh => input = ctx_input(*r, 1 + (*r % 64) as usize),
                PayComp::CtxAppendZeros => input.extend(std::iter::repeat(0u8).take(1 + (*r % 3) as usize)),
                PayComp::CtxDigestOfInput => input = crate::engine::refmath::sha3(&[&input]).to_vec(),
            }
            if amt == h.amt && matches!(comp, PayComp::AmountNegated | PayComp::AmountZero) {
                rec.class("substitution-without-effect(amount)");
                return Ok(());
            }
            let Some(acc) = run(&m, amt, &nonce, &Context::new(&input)) else { return Ok(()) };
            reject(rec, &format!("pay/{:?}", comp), acc, format!("C06/pay-proof-accepted-under-other-{:?}", comp), format!("a pay proof accepted for one tuple is also accepted after replacing {:?}", comp))?;
            rec.nontrivial(("pay", format!("{:?}", comp), *seed, *r));
            rec.sample(&format!("pay/{:?}", comp), || json!({"proof": "pay", "component": format!("{:?}", comp), "seed": seed}));
        }
        Case::Replay { from, to, what } => {
            if from == to {
                return Ok(());
            }
            let (a, b) = (session(*from), session(*to));
            let rel = if a.m.seed != b.m.seed { "other-merchant" } else { "other-channel" };
            let ctx_b = proto::context(b.ctx_seed);
            let (label, acc) = match what % 5 {
                0 => {
                    let p: EstablishProof = wire::dec(&a.est_proof).unwrap();
                    ("establish-proof", b.m.cfg.initialize(&mut rng(1), &b.cid, proto::cbal(b.cb), proto::mbal(b.mb), p, &ctx_b).is_some())
                }
                1 => {
                    let st: Requested = wire::dec(&b.requested).unwrap();
                    let sig: ClosingSignature = wire::dec(&a.closing_est).unwrap();
                    ("closing-signature(establish)", st.complete(sig, &b.m.cust).is_ok())
                }
                2 => {
                    let st: Inactive = wire::dec(&b.inactive).unwrap();
                    let t: PayToken = wire::dec(&a.token_est).unwrap();
                    ("pay-token(establish)", st.activate(t, &b.m.cust).is_ok())
                }
                3 => {
                    let st: Started = wire::dec(&b.started).unwrap();
                    let sig: ClosingSignature = wire::dec(if from % 2 == 0 { &a.closing_pay } else { &a.closing_est }).unwrap();
                    ("closing-signature(pay)", st.lock(sig, &b.m.cust).is_ok())
                }
                _ => {
                    let st: Locked = wire::dec(&b.locked).unwrap();
                    let t: PayToken = wire::dec(if from % 2 == 0 { &a.token_pay } else { &a.token_est }).unwrap();
                    ("pay-token(pay)", st.unlock(t, &b.m.cust).is_ok())
                }
            };
            reject(rec, &format!("replay/{}/{}", label, rel), acc, format!("C06/replayed-{}-accepted", label), format!("a {} recorded in session {} is accepted in session {} ({})", label, from, to, rel))?;
            rec.nontrivial(("replay", *from, *to, *what));
            rec.sample(&format!("replay/{}", label), || json!({"replayed": label, "from_session": from, "to_session": to, "relation": rel}));
        }
        Case::Closing { sess, other, stage, field, how, r } => {
            let s = session(*sess);
            let o = session(if other == sess { (*other + 1) % 4 } else { *other });
            let stage_i = (*stage % 4) as usize;
            let img = {
                let cm: ClosingMessage = wire::dec(&s.closings[stage_i]).unwrap();
                Image::must(&cm)
            };
            let oimg = {
                let cm: ClosingMessage = wire::dec(&o.closings[pick_idx((*r >> 3) as u16, 4)]).unwrap();
                Image::must(&cm)
            };
            // the original is accepted
            {
                let cm: ClosingMessage = wire::dec(&img.bytes).unwrap();
                let (sig, cs) = cm.into_parts();
                ensure!(proto::is_verified(s.m.cfg.check_close_signature(sig, &cs)), "C06/honest-closing-message-rejected", "an honest closing message fails the close check");
            }
            let path = ["close_state.channel_id", "close_state.revocation_lock", "close_state.merchant_balance", "close_state.customer_balance"][(*field % 4) as usize];
            let cur = img.get(path).to_vec();
            let new: Vec<u8> = match (how % 3, field % 4) {
                // value from another state / channel
                (0, _) => oimg.get(path).to_vec(),
                // near values
                (1, 0) => {
                    let mut b = cur.clone();
                    b[(*r % 31) as usize] ^= 1;
                    b
                }
                (1, 1) => (wire::sc(&cur).unwrap() + Scalar::one()).to_bytes().to_vec(),
                (1, _) => (u64::from_le_bytes(cur.clone().try_into().unwrap()).wrapping_add(1) & MAXB).to_le_bytes().to_vec(),
                (_, 0) => crate::engine::refmath::sha3(&[&r.to_le_bytes()]).to_vec(),
                (_, 1) => rand_scalar(*r).to_bytes().to_vec(),
                (_, _) => (u64::from_le_bytes(cur.clone().try_into().unwrap()).wrapping_sub(1) & MAXB).to_le_bytes().to_vec(),
            };
            if new == cur {
                rec.class("closing/substitution-without-effect");
                return Ok(());
            }
            let bytes = img.with(path, &new);
            let acc = match wire::dec::<ClosingMessage>(&bytes) {
                Err(_) => false,
                Ok(cm) => {
                    let (sig, cs) = cm.into_parts();
                    proto::is_verified(s.m.cfg.check_close_signature(sig, &cs))
                }
            };
            let stage_l = ["inactive", "ready", "started", "locked"][stage_i];
            let field_l = path.rsplit('.').next().unwrap();
            reject(rec, &format!("closing/{}/{}", stage_l, field_l), acc, format!("C06/closing-message-accepted-with-substituted-{}", field_l), format!("a closing message from {} passes the close check after its {} was replaced", stage_l, field_l))?;
            rec.nontrivial(("closing", *sess, *other, stage_i, *field, *how, *r));
            let how_l = ["value-of-other-state", "near(+1 / one bit)", "fresh / -1"][(*how % 3) as usize];
            rec.sample(&format!("closing/{}", field_l), || json!({"stage": stage_l, "field": field_l, "substitution": how_l}));
        }
    }
    Ok(())
}

pub fn checks() -> Vec<CheckDef> {
    vec![prop_check(
        "single-component-substitution",
        "generated substitutions on accepted originals: establish tuple (key [fresh key, one public element of the key moved], channel id [one bit / fresh], customer and merchant balance [+1, -1, fresh], context [one byte changed, one byte longer, fresh]); pay tuple (key, range parameters, revocation parameters [merchants built with from_parts differing in exactly one part, or in exactly one group element of the key / the revocation parameters / the range key], nonce [fresh, +1], amount [+1, -1, negated, 0], context [byte, fresh]); replay of recorded establish proofs, closing signatures and pay tokens (establish and pay phase) between 4 sessions on 2 merchants; closing messages from Inactive/Ready/Started/Locked with channel id, lock, merchant balance or customer balance replaced by the value of another state/channel, a near value or a fresh value; oracle (metamorphic): the original is accepted and every substituted variant is rejected / refused / fails the close check; distinct by case",
        &["establish/Key", "establish/CtxByte", "pay/RevParams", "pay/AmountNegated", "replay/pay-token(pay)/other-channel", "closing/started/revocation_lock"],
        (2100, 150_000),
        strategy,
        oracle,
    )]
}
