//! C01 — Merchant establishes only channels whose hidden state matches the agreed values.

use super::common::*;
use crate::engine::refmath::{ps_verify, u64_scalar};
use crate::engine::wire::{self, Image};
use crate::engine::{prop_check, CheckDef, Fail, Rec, Tier, R};
use crate::model::forger::*;
use crate::model::history::{bal_sel, BalSel};
use crate::model::proto;
use bls12_381::{G1Projective, Scalar};
use group::Curve;
use proptest::prelude::*;
use serde::{Deserialize, Serialize};
use serde_json::json;
use zkabacus_crypto::EstablishProof;
use zkchannels_crypto::proofs::verif_hooks::drain;

#[derive(Clone, Debug, Serialize, Deserialize, Hash, PartialEq, Eq)]
pub enum EstLie {
    None,
    /// state slot (0 cid, 3 cb, 4 mb) altered
    State(u8, ScSpec),
    /// close-state slot (0 cid, 1 tag, 2 lock, 3 cb, 4 mb) altered
    Close(u8, ScSpec),
    /// the same slot (0, 3, 4) altered consistently in both
    Both(u8, ScSpec),
    /// balances swapped in both messages
    SwapBalances,
    /// the revocation lock placed in the tag slot
    LockInTag,
    /// a fresh nonce in the tag slot (the closing signature would then be a pay token)
    NonceInTag(u64),
    TagZero,
    /// a balance in the channel-id slot of both messages
    BalanceInCid,
    /// slot (0 cid, 2 lock, 3 cb, 4 mb) raised by delta in the state and lowered by delta in the
    /// close state: the two lies cancel in any unweighted aggregate of the two sub-proofs
    Compensating(u8, ScSpec),
}

impl EstLie {
    fn label(&self) -> String {
        match self {
            EstLie::None => "none".into(),
            EstLie::State(s, _) => format!("state.{}", slot_name(*s, false)),
            EstLie::Close(s, _) => format!("close.{}", slot_name(*s, true)),
            EstLie::Both(s, _) => format!("both.{}", slot_name(*s, false)),
            EstLie::SwapBalances => "balances-swapped".into(),
            EstLie::LockInTag => "lock-in-tag-slot".into(),
            EstLie::NonceInTag(_) => "nonce-in-tag-slot".into(),
            EstLie::TagZero => "tag-zero".into(),
            EstLie::BalanceInCid => "balance-in-cid-slot".into(),
            EstLie::Compensating(s, _) => format!("compensating.{}", slot_name(*s, false)),
        }
    }
}

fn slot_name(s: u8, close: bool) -> &'static str {
    match s % 5 {
        0 => "cid",
        1 => if close { "tag" } else { "nonce" },
        2 => "lock",
        3 => "cb",
        _ => "mb",
    }
}

pub fn est_strategy_label(s: &EstStrategy) -> String {
    match s {
        EstStrategy::Plain => "plain".into(),
        EstStrategy::RevealedLast => "revealed-scalars-chosen-after-challenge".into(),
        EstStrategy::RevealedOne(_) => "one-revealed-scalar-chosen-after-challenge".into(),
        EstStrategy::DropLink(_) => "link-dropped".into(),
        EstStrategy::TLast { close, fix_revealed } => format!("scalar-commitment-of-{}-chosen-after-challenge{}", if *close { "close" } else { "state" }, if *fix_revealed { "+revealed" } else { "" }),
        EstStrategy::CLast { close, fix_revealed } => format!("commitment-of-{}-chosen-after-challenge{}", if *close { "close" } else { "state" }, if *fix_revealed { "+revealed" } else { "" }),
        EstStrategy::Mutate(..) => "mutated-atoms".into(),
        EstStrategy::AnswerAsAgreed => "responses-as-if-agreed-values-were-committed".into(),
    }
}

#[derive(Clone, Debug, Serialize, Deserialize)]
pub struct Case {
    merchant: u8,
    cb: BalSel,
    mb: BalSel,
    ctx: u16,
    lie: EstLie,
    strategy: EstStrategy,
    seed: u64,
}

fn lie_strategy() -> impl Strategy<Value = EstLie> {
    let st_slot = prop_oneof![Just(0u8), Just(3u8), Just(4u8)];
    let st_slot2 = prop_oneof![Just(0u8), Just(3u8), Just(4u8)];
    prop_oneof![
        1 => Just(EstLie::None),
        3 => (st_slot, delta_spec()).prop_map(|(s, d)| EstLie::State(s, d)),
        5 => (0u8..5, delta_spec()).prop_map(|(s, d)| EstLie::Close(s, d)),
        4 => (st_slot2, delta_spec()).prop_map(|(s, d)| EstLie::Both(s, d)),
        1 => Just(EstLie::SwapBalances),
        1 => Just(EstLie::LockInTag),
        2 => any::<u64>().prop_map(EstLie::NonceInTag),
        1 => Just(EstLie::TagZero),
        1 => Just(EstLie::BalanceInCid),
        4 => (prop_oneof![Just(0u8), Just(2u8), Just(3u8), Just(4u8)], delta_spec()).prop_map(|(s, d)| EstLie::Compensating(s, d)),
    ]
}

fn strat_strategy() -> impl Strategy<Value = EstStrategy> {
    prop_oneof![
        3 => Just(EstStrategy::Plain),
        4 => Just(EstStrategy::RevealedLast),
        3 => (0u8..4).prop_map(EstStrategy::RevealedOne),
        2 => prop_oneof![Just(0u8), Just(2u8), Just(3u8), Just(4u8)].prop_map(EstStrategy::DropLink),
        4 => (any::<bool>(), any::<bool>()).prop_map(|(close, fix_revealed)| EstStrategy::TLast { close, fix_revealed }),
        4 => (any::<bool>(), any::<bool>()).prop_map(|(close, fix_revealed)| EstStrategy::CLast { close, fix_revealed }),
        2 => (any::<u8>(), any::<u64>()).prop_map(|(n, s)| EstStrategy::Mutate(n, s)),
        4 => Just(EstStrategy::AnswerAsAgreed),
    ]
}

fn strategy(_t: Tier) -> impl Strategy<Value = Case> {
    (0u8..2, bal_sel(), bal_sel(), any::<u16>(), lie_strategy(), strat_strategy(), any::<bool>(), any::<u64>()).prop_map(|(merchant, cb, mb, ctx, lie, strategy, matched, seed)| {
        // cancelling lies only have a chance together with the answer-as-agreed strategy
        let strategy = if matched && matches!(lie, EstLie::Compensating(..)) { EstStrategy::AnswerAsAgreed } else { strategy };
        Case { merchant, cb, mb, ctx, lie, strategy, seed }
    })
}

/// Template (layout only) of an establish proof.
pub fn est_template(m: &proto::Merchant) -> Image {
    let cid = proto::channel_id(m, 0x7e);
    let ctx = proto::context(0x7e);
    let (_, proof) = zkabacus_crypto::customer::Requested::new(&mut rng(0x7e), &m.cust, cid, proto::mbal(1), proto::cbal(1), &ctx);
    Image::must(&proof)
}

fn oracle(c: &Case, rec: &Rec) -> R {
    let m = proto::merchant(c.merchant as u64);
    let cid = proto::channel_id(&m, c.seed);
    let ctx = proto::context(c.ctx as u64);
    let (cb, mb) = (c.cb.get(), c.mb.get());
    let public = EstPublic { cid: proto::cid_scalar(&cid), cb: u64_scalar(cb), mb: u64_scalar(mb) };
    let template = est_template(&m);

    // hidden messages: honest, then the lie
    let nonce = rand_scalar(c.seed ^ 0x11);
    let lock = rand_scalar(c.seed ^ 0x12);
    let mut h = EstHidden { state: [public.cid, nonce, lock, public.cb, public.mb], close: [public.cid, CLOSE, lock, public.cb, public.mb] };
    let agreed = h.clone();
    match &c.lie {
        EstLie::None => {}
        EstLie::Compensating(s, d) => {
            let k = match *s { 0 => 0usize, 2 => 2, 3 => 3, _ => 4 };
            h.state[k] += nonzero(d);
            h.close[k] -= nonzero(d);
        }
        EstLie::State(..) => {} // applied below
        EstLie::Close(s, d) => h.close[(*s % 5) as usize] += nonzero(d),
        EstLie::Both(s, d) => {
            let k = match *s { 0 => 0usize, 3 => 3, _ => 4 };
            h.state[k] += nonzero(d);
            h.close[k] += nonzero(d);
        }
        EstLie::SwapBalances => {
            h.state.swap(3, 4);
            h.close.swap(3, 4);
        }
        EstLie::LockInTag => h.close[1] = lock,
        EstLie::NonceInTag(s) => h.close[1] = rand_scalar(*s),
        EstLie::TagZero => h.close[1] = Scalar::zero(),
        EstLie::BalanceInCid => {
            h.state[0] = public.cb;
            h.close[0] = public.cb;
        }
    }
    // `State(s, ..)` uses the slot literally
    if let EstLie::State(s, d) = &c.lie {
        h.state = [public.cid, nonce, lock, public.cb, public.mb];
        let k = match *s { 0 => 0usize, 3 => 3, _ => 4 };
        h.state[k] += nonzero(d);
    }

    let drop_link = match &c.strategy {
        EstStrategy::DropLink(k) => Some(match *k { 0 => 0usize, 2 => 2, 3 => 3, _ => 4 }),
        _ => None,
    };
    let mut f = EstForger::commit(&m.pk, &template, &h, &agreed, drop_link, c.seed);

    // the challenge the verifier derives for the draft (same hashed fields as the final proof,
    // unless the strategy changes a hashed field afterwards)
    let draft: EstablishProof = wire::dec(&f.bytes()).map_err(|e| Fail::new("harness/draft-undecodable", e))?;
    let _ = drain();
    let _ = m.cfg.initialize(&mut rng(c.seed), &cid, proto::cbal(cb), proto::mbal(mb), draft, &ctx);
    let log = drain();
    let Some((_, ch)) = log.last().cloned() else {
        return Err(Fail::new("harness/no-challenge-recorded", "initialize derived no challenge"));
    };
    f.respond(&ch, &public, &c.strategy, c.seed);
    let mutate = match &c.strategy {
        EstStrategy::Mutate(n, s) => Some((*n, *s)),
        _ => None,
    };
    let att = f.attempt(mutate);
    ensure!(att.openings_consistent, "harness/forger-opening-inconsistent", "forger lost track of an opening");
    let holds = est_statement_holds(&public, &att.state_opening, &att.close_opening);
    let lie_l = c.lie.label();
    let strat_l = est_strategy_label(&c.strategy);

    let fin: Result<EstablishProof, String> = wire::dec(&att.bytes);
    let Ok(fin) = fin else {
        rec.class("decode-rejected");
        return Ok(());
    };
    let res = m.cfg.initialize(&mut rng(c.seed ^ 1), &cid, proto::cbal(cb), proto::mbal(mb), fin, &ctx);
    rec.eval(1);
    let accepted = res.is_some();

    if matches!(c.lie, EstLie::None) && matches!(c.strategy, EstStrategy::Plain) {
        // forger self-check: the un-lying plain run is the honest prover and must be accepted
        ensure!(accepted, "harness/forger-control-rejected", "the forger's honest control run was rejected: layout or transcript drift");
        let (closing, vbs) = res.unwrap();
        // positive half: the returned signatures unblind to valid signatures exactly on the agreed messages
        let token = m.cfg.activate(&mut rng(c.seed ^ 2), vbs);
        for (what, img, bf, msg) in [("closing-signature", Image::must(&closing), att.close_bf, &att.close_opening), ("pay-token", Image::must(&token), att.state_bf, &att.state_opening)] {
            let s1 = img.g1("sigma1");
            let s2 = (G1Projective::from(img.g1("sigma2")) - G1Projective::from(s1) * bf).to_affine();
            rec.eval(6);
            ensure!(ps_verify(&m.pk, msg, &s1, &s2), format!("C01/returned-{}-invalid", what), "the {} returned for an accepted proof does not unblind to a valid signature on the proven message", what);
            for k in 0..5 {
                let mut alt = msg.clone();
                alt[k] += Scalar::one();
                ensure!(!ps_verify(&m.pk, &alt, &s1, &s2), format!("C01/returned-{}-valid-on-other-message", what), "the {} verifies on a message differing in slot {}", what, k);
            }
        }
        ensure!(att.close_opening[2] == att.state_opening[2] && att.close_opening[1] == CLOSE, "harness/control-messages", "control messages inconsistent");
        rec.class("control/accepted");
        rec.sample("control", || json!({"cb": cb.to_string(), "mb": mb.to_string(), "lie": lie_l, "strategy": strat_l, "accepted": true}));
        return Ok(());
    }

    if accepted && !holds {
        // confirm the exploit: the closing signature unblinds to a signature on the attacker's message
        let (closing, _) = res.unwrap();
        let img = Image::must(&closing);
        let s1 = img.g1("sigma1");
        let s2 = (G1Projective::from(img.g1("sigma2")) - G1Projective::from(s1) * att.close_bf).to_affine();
        let exploit = ps_verify(&m.pk, &att.close_opening, &s1, &s2);
        return Err(Fail::new(
            format!("C01/false-statement-accepted/{}", strat_l),
            format!(
                "initialize accepted an establish proof whose hidden messages differ from the agreed values (lie: {}; strategy: {}); the returned closing signature unblinds to a valid signature on the attacker's close-state message: {}",
                lie_l, strat_l, exploit
            ),
        )
        .obs("accepted", "rejected"));
    }
    rec.class(&format!("lie/{}/{}", lie_l, if accepted { "accepted(statement-holds)" } else { "rejected" }));
    rec.class(&format!("strategy/{}", strat_l));
    if !matches!(c.lie, EstLie::None) {
        rec.nontrivial((lie_l.clone(), strat_l.clone(), c.cb.label(), c.mb.label()));
    }
    rec.sample(&format!("{}/{}", lie_l, strat_l), || json!({"cb": cb.to_string(), "mb": mb.to_string(), "lie": lie_l, "strategy": strat_l, "statement_holds_for_known_openings": holds, "accepted": accepted}));
    Ok(())
}

/// Deterministic controls: the forger's no-lie plain run is the honest prover; it must be accepted
/// and the returned signatures must be valid exactly on the agreed messages.
fn control_gen(ctx: &crate::engine::Ctx) -> Vec<Case> {
    let bals = [BalSel::Zero, BalSel::One, BalSel::Max, BalSel::P32, BalSel::Rand(ctx.seed ^ 0x1234), BalSel::Rand(ctx.seed.wrapping_mul(31))];
    let mut out = Vec::new();
    for i in 0..ctx.tier.pick(6usize, 24) {
        out.push(Case {
            merchant: (i % 2) as u8,
            cb: bals[i % bals.len()].clone(),
            mb: bals[(i / 2 + 3) % bals.len()].clone(),
            ctx: i as u16,
            lie: EstLie::None,
            strategy: EstStrategy::Plain,
            seed: ctx.seed.wrapping_mul(0x9e37_79b9).wrapping_add(i as u64),
        });
    }
    out
}

pub fn checks() -> Vec<CheckDef> {
    vec![
        crate::engine::enum_check(
            "forger-control",
            "deterministic controls: the forger's own no-lie plain run (merchants x balance shapes) must be accepted by initialize, and the returned closing signature and pay token must unblind (with the forger's blinding factors) to signatures valid exactly on the agreed close state / state (reference pairing check; invalid on every single-slot alteration)",
            &["control/accepted"],
            false,
            control_gen,
            oracle,
        ),
        forged_check(),
    ]
}

fn forged_check() -> CheckDef {
    prop_check(
        "forged-establish",
        "generated attempts = (merchant, agreed balances from the lattice/random, context, lie in {none, one state slot, one close-state slot (cid, tag, lock, cb, mb), same slot in both, balances swapped, lock / fresh nonce / 0 in the tag slot, balance in the cid slot, compensating lies: a slot raised in the state and lowered in the close state}, strategy in {plain prover on the lying messages, revealed commitment scalars chosen after the challenge (all / one), one link dropped, scalar commitment or commitment of either sub-proof chosen after the challenge with responses repaired (with and without re-chosen revealed scalars), responses computed as if the agreed values had been committed, 1-2 atoms mutated}); the verifier's challenge is read through the challenge-recorder hook on a draft; oracle: accepted => the forger's known openings satisfy the agreed statement (exact); non-trivial = an attempt with a lie that decodes and reaches verify; distinct by (lie, strategy, balance classes)",
        &["strategy/revealed-scalars-chosen-after-challenge", "strategy/scalar-commitment-of-close-chosen-after-challenge+revealed", "strategy/responses-as-if-agreed-values-were-committed"],
        (2200, 250_000),
        strategy,
        oracle,
    )
}
