//! Registry of every decodable type of both crates (and the public element codecs): how to get an
//! honest encoding and how to decode + re-encode arbitrary bytes. Shared by C15 and C16; ids are
//! positions in the registry, identical in the parent and in decode workers.

use super::common::*;
use crate::engine::wire::{self, Image};
use crate::model::proto;
use bls12_381::{G1Affine, G1Projective, G2Affine, G2Projective, Scalar};
use group::Curve;
use serde::{de::DeserializeOwned, Deserialize, Serialize};
use std::collections::HashMap;
use std::sync::{Arc, Mutex, OnceLock};
use zkchannels_crypto::{
    pedersen::{Commitment, PedersenParameters},
    pointcheval_sanders::{BlindedMessage, BlindedSignature, KeyPair, PublicKey, Signature},
    proofs::{
        ChallengeBuilder, CommitmentProof, CommitmentProofBuilder, RangeConstraint, RangeConstraintBuilder,
        RangeConstraintParameters, SignatureProof, SignatureProofBuilder, SignatureRequestProof,
        SignatureRequestProofBuilder,
    },
    BlindingFactor, Message, SerializeElement,
};

pub struct TypeEntry {
    pub name: String,
    pub honest: Box<dyn Fn(u64) -> Image + Send + Sync>,
    /// decode and re-encode
    pub decode: Box<dyn Fn(&[u8]) -> Result<Vec<u8>, String> + Send + Sync>,
}

fn entry<T: Serialize + DeserializeOwned + 'static>(name: impl Into<String>, honest: impl Fn(u64) -> T + Send + Sync + 'static) -> TypeEntry {
    TypeEntry {
        name: name.into(),
        honest: Box::new(move |s| Image::must(&honest(s))),
        decode: Box::new(|b| wire::dec::<T>(b).map(|v| wire::enc(&v))),
    }
}

// wrappers exercising the public element codecs
#[derive(Serialize, Deserialize)]
#[serde(bound = "G: SerializeElement")]
pub struct Elem<G: SerializeElement>(#[serde(with = "SerializeElement")] pub G);

fn generic_entries<const N: usize>(v: &mut Vec<TypeEntry>) {
    let m = |s: u64| -> Message<N> {
        let mut a = [Scalar::zero(); N];
        for (i, x) in a.iter_mut().enumerate() {
            *x = rand_scalar(s.wrapping_add(i as u64));
        }
        Message::new(a)
    };
    v.push(entry(format!("PedersenParameters<G1,{}>", N), |s| PedersenParameters::<G1Projective, N>::new(&mut rng(s))));
    v.push(entry(format!("PedersenParameters<G2,{}>", N), |s| PedersenParameters::<G2Projective, N>::new(&mut rng(s))));
    v.push(entry(format!("PublicKey<{}>", N), |s| keys::<N>(s % 3).kp.public_key().clone()));
    v.push(entry(format!("KeyPair<{}>", N), |s| proto::copy(&keys::<N>(s % 3).kp)));
    v.push(entry(format!("CommitmentProof<G1,{}>", N), move |s| {
        let p = PedersenParameters::<G1Projective, N>::new(&mut rng(s));
        let b = CommitmentProofBuilder::generate_proof_commitments(&mut rng(s ^ 1), m(s), &[None; N], &p);
        let c = ChallengeBuilder::new().with(&b).finish();
        b.generate_proof_response(c)
    }));
    v.push(entry(format!("CommitmentProof<G2,{}>", N), move |s| {
        let p = PedersenParameters::<G2Projective, N>::new(&mut rng(s));
        let b = CommitmentProofBuilder::generate_proof_commitments(&mut rng(s ^ 1), m(s), &[None; N], &p);
        let c = ChallengeBuilder::new().with(&b).finish();
        b.generate_proof_response(c)
    }));
    v.push(entry(format!("SignatureProof<{}>", N), move |s| {
        let k = keys::<N>(s % 3);
        let sig = m(s).sign(&mut rng(s ^ 2), &k.kp);
        let b = SignatureProofBuilder::<N>::generate_proof_commitments(&mut rng(s ^ 1), m(s), sig, &[None; N], k.kp.public_key());
        let c = ChallengeBuilder::new().with(&b).finish();
        b.generate_proof_response(c)
    }));
    v.push(entry(format!("SignatureRequestProof<{}>", N), move |s| {
        let k = keys::<N>(s % 3);
        let b = SignatureRequestProofBuilder::<N>::generate_proof_commitments(&mut rng(s ^ 1), m(s), &[None; N], k.kp.public_key());
        let c = ChallengeBuilder::new().with(&b).finish();
        b.generate_proof_response(c)
    }));
    // public element codecs: [G; N] and Box<[G; N]>
    v.push(entry(format!("codec [G1Projective;{}]", N), |s| {
        let mut a = [G1Projective::identity(); N];
        for (i, x) in a.iter_mut().enumerate() {
            *x = G1Projective::generator() * rand_scalar(s.wrapping_add(i as u64));
        }
        Elem(a)
    }));
    v.push(entry(format!("codec Box<[Scalar;{}]>", N), |s| {
        let mut a = [Scalar::zero(); N];
        for (i, x) in a.iter_mut().enumerate() {
            *x = rand_scalar(s.wrapping_add(i as u64));
        }
        Elem(Box::new(a))
    }));
    v.push(entry(format!("codec [G2Affine;{}]", N), |s| {
        let mut a = [G2Affine::identity(); N];
        for (i, x) in a.iter_mut().enumerate() {
            *x = (G2Projective::generator() * rand_scalar(s.wrapping_add(i as u64))).to_affine();
        }
        Elem(a)
    }));
}

use group::Group;

/// Images of every protocol-level value reached in one honest run (cached per seed).
pub fn proto_set(seed: u64) -> Arc<HashMap<&'static str, Image>> {
    static C: OnceLock<Mutex<HashMap<u64, Arc<HashMap<&'static str, Image>>>>> = OnceLock::new();
    let c = C.get_or_init(|| Mutex::new(HashMap::new()));
    if let Some(m) = c.lock().unwrap().get(&seed) {
        return m.clone();
    }
    let m = proto::merchant(seed % 2);
    let cid = proto::channel_id(&m, seed);
    let ctx = proto::context(seed & 0xff);
    let (cb, mb) = (1000 + seed % 1000, 500 + (seed >> 3) % 1000);
    let mut out: HashMap<&'static str, Image> = HashMap::new();
    out.insert("customer::Config", Image::must(&m.cust));
    out.insert("ChannelId", Image::must(&cid));
    let est = proto::establish(&m, &cid, cb, mb, &ctx, seed).expect("honest establishment");
    out.insert("EstablishProof", Image { bytes: est.proof_bytes.clone(), atoms: Image::must(&wire::dec::<zkabacus_crypto::EstablishProof>(&est.proof_bytes).unwrap()).atoms });
    let req: zkabacus_crypto::customer::Requested = wire::dec(&est.requested_bytes).unwrap();
    out.insert("customer::Requested", Image::must(&req));
    let closing: zkabacus_crypto::ClosingSignature = wire::dec(&est.closing_bytes).unwrap();
    out.insert("ClosingSignature", Image::must(&closing));
    let inactive = req.complete(closing, &m.cust).ok().expect("complete");
    out.insert("customer::Inactive", Image::must(&inactive));
    let token: zkabacus_crypto::PayToken = wire::dec(&est.token_bytes).unwrap();
    out.insert("PayToken", Image::must(&token));
    out.insert("customer::Ready", Image::must(&est.ready));
    let cm = proto::copy(&est.ready).close(&mut rng(seed));
    out.insert("customer::ClosingMessage", Image::must(&cm));
    let (csig, cstate) = cm.into_parts();
    out.insert("CloseStateSignature", Image::must(&csig));
    out.insert("CloseState", Image::must(&cstate));
    let amt = (seed % 7) as i64 - 3;
    let (started, msg) = proto::start(&m, est.ready, amt, &ctx, seed).expect("start");
    out.insert("customer::Started", Image::must(&started));
    out.insert("Nonce", Image::must(&msg.nonce));
    out.insert("PayProof", Image::must(&msg.pay_proof));
    let ppimg = Image::must(&msg.pay_proof);
    let rlc: zkabacus_crypto::revlock::RevocationLockCommitment = wire::dec(ppimg.get("old_revocation_lock_proof.commitment")).unwrap();
    out.insert("RevocationLockCommitment", Image::must(&rlc));
    let (_unrevoked, closing2) = m.cfg.allow_payment(&mut rng(seed ^ 5), proto::amount(amt), &msg.nonce, msg.pay_proof, &ctx).expect("allow_payment");
    let (locked, lock_msg) = started.lock(closing2, &m.cust).ok().expect("lock");
    out.insert("customer::Locked", Image::must(&locked));
    out.insert("RevocationPair", Image::must(&lock_msg.revocation_pair));
    out.insert("RevocationLock", Image::must(&lock_msg.revocation_pair.revocation_lock()));
    out.insert("RevocationSecret", Image::must(&lock_msg.revocation_pair.revocation_secret()));
    out.insert("RevocationLockBlindingFactor", Image::must(&lock_msg.revocation_lock_blinding_factor));
    let out = Arc::new(out);
    c.lock().unwrap().insert(seed, out.clone());
    out
}

fn proto_entry<T: Serialize + DeserializeOwned + 'static>(name: &'static str) -> TypeEntry {
    TypeEntry {
        name: name.to_string(),
        honest: Box::new(move |s| proto_set(s % 4).get(name).unwrap_or_else(|| panic!("schema-drift: no {}", name)).clone()),
        decode: Box::new(|b| wire::dec::<T>(b).map(|v| wire::enc(&v))),
    }
}

pub fn registry() -> &'static Vec<TypeEntry> {
    static R: OnceLock<Vec<TypeEntry>> = OnceLock::new();
    R.get_or_init(|| {
        let mut v: Vec<TypeEntry> = Vec::new();
        v.push(entry("BlindingFactor", |s| bf(&rand_scalar(s))));
        v.push(entry("Commitment<G1>", |s| commitment_from(&(G1Projective::generator() * rand_scalar(s)))));
        v.push(entry("Commitment<G2>", |s| commitment_from(&(G2Projective::generator() * rand_scalar(s)))));
        v.push(entry("Signature", |s| {
            let k = keys::<3>(s % 3);
            Message::new([rand_scalar(s), rand_scalar(s + 1), rand_scalar(s + 2)]).sign(&mut rng(s), &k.kp)
        }));
        v.push(entry("BlindedSignature", |s| {
            let k = keys::<3>(s % 3);
            let sig: Signature = Message::new([rand_scalar(s), rand_scalar(s + 1), rand_scalar(s + 2)]).sign(&mut rng(s), &k.kp);
            let b: BlindedSignature = sig.blind_and_randomize(&mut rng(s ^ 9), bf(&rand_scalar(s ^ 3)));
            b
        }));
        v.push(entry("BlindedMessage", |s| {
            let k = keys::<3>(s % 3);
            let b: BlindedMessage = Message::new([rand_scalar(s), rand_scalar(s + 1), rand_scalar(s + 2)]).blind(k.kp.public_key(), bf(&rand_scalar(s ^ 3)));
            b
        }));
        v.push(entry("RangeConstraintParameters", |s| (*super::common::range_params(s % 2)).clone()));
        v.push(entry("RangeConstraint", |s| {
            let p = super::common::range_params(0);
            let b = RangeConstraintBuilder::generate_constraint_commitments((s >> 1) as i64, &p, &mut rng(s)).unwrap();
            let c = ChallengeBuilder::new().with(&b).finish();
            let rc: RangeConstraint = b.generate_constraint_response(c);
            rc
        }));
        generic_entries::<1>(&mut v);
        generic_entries::<2>(&mut v);
        generic_entries::<3>(&mut v);
        generic_entries::<5>(&mut v);
        generic_entries::<8>(&mut v);
        generic_entries::<13>(&mut v);
        // public element codecs, single elements and Vec<G>
        v.push(entry("codec G1Affine", |s| Elem((G1Projective::generator() * rand_scalar(s)).to_affine())));
        v.push(entry("codec G1Projective", |s| Elem(G1Projective::generator() * rand_scalar(s))));
        v.push(entry("codec G2Affine", |s| Elem((G2Projective::generator() * rand_scalar(s)).to_affine())));
        v.push(entry("codec G2Projective", |s| Elem(G2Projective::generator() * rand_scalar(s))));
        v.push(entry("codec Scalar", |s| Elem(rand_scalar(s))));
        v.push(entry("codec Vec<G1Affine>", |s| Elem((0..(s % 5)).map(|i| (G1Projective::generator() * rand_scalar(s + i)).to_affine()).collect::<Vec<G1Affine>>())));
        v.push(entry("codec Vec<Scalar>", |s| Elem((0..(s % 7)).map(|i| rand_scalar(s + i)).collect::<Vec<Scalar>>())));
        v.push(entry("codec Vec<G2Projective>", |s| Elem((0..(1 + s % 3)).map(|i| G2Projective::generator() * rand_scalar(s + i)).collect::<Vec<G2Projective>>())));
        // zkabacus-crypto
        v.push(proto_entry::<zkabacus_crypto::customer::Config>("customer::Config"));
        v.push(proto_entry::<zkabacus_crypto::customer::Requested>("customer::Requested"));
        v.push(proto_entry::<zkabacus_crypto::customer::Inactive>("customer::Inactive"));
        v.push(proto_entry::<zkabacus_crypto::customer::Ready>("customer::Ready"));
        v.push(proto_entry::<zkabacus_crypto::customer::Started>("customer::Started"));
        v.push(proto_entry::<zkabacus_crypto::customer::Locked>("customer::Locked"));
        v.push(proto_entry::<zkabacus_crypto::customer::ClosingMessage>("customer::ClosingMessage"));
        v.push(proto_entry::<zkabacus_crypto::CloseState>("CloseState"));
        v.push(proto_entry::<zkabacus_crypto::CloseStateSignature>("CloseStateSignature"));
        v.push(proto_entry::<zkabacus_crypto::ClosingSignature>("ClosingSignature"));
        v.push(proto_entry::<zkabacus_crypto::PayToken>("PayToken"));
        v.push(proto_entry::<zkabacus_crypto::EstablishProof>("EstablishProof"));
        v.push(proto_entry::<zkabacus_crypto::PayProof>("PayProof"));
        v.push(proto_entry::<zkabacus_crypto::Nonce>("Nonce"));
        v.push(proto_entry::<zkabacus_crypto::revlock::RevocationPair>("RevocationPair"));
        v.push(proto_entry::<zkabacus_crypto::revlock::RevocationLock>("RevocationLock"));
        v.push(proto_entry::<zkabacus_crypto::revlock::RevocationSecret>("RevocationSecret"));
        v.push(proto_entry::<zkabacus_crypto::revlock::RevocationLockCommitment>("RevocationLockCommitment"));
        v.push(proto_entry::<zkabacus_crypto::revlock::RevocationLockBlindingFactor>("RevocationLockBlindingFactor"));
        v.push(proto_entry::<zkabacus_crypto::ChannelId>("ChannelId"));
        v.push(entry("CustomerRandomness", |s| zkabacus_crypto::CustomerRandomness::new(&mut rng(s))));
        v.push(entry("MerchantRandomness", |s| zkabacus_crypto::MerchantRandomness::new(&mut rng(s))));
        v.push(entry("CustomerBalance", |s| proto::cbal(s >> 1)));
        v.push(entry("MerchantBalance", |s| proto::mbal(s >> 1)));
        v.push(entry("PaymentAmount", |s| proto::amount((s >> 1) as i64 * if s & 1 == 1 { -1 } else { 1 })));
        v.push(entry("Error", |s| if s & 1 == 0 { zkabacus_crypto::Error::InsufficientFunds } else { zkabacus_crypto::Error::AmountTooLarge(s) }));
        v
    })
}

pub fn type_id(name: &str) -> Option<usize> {
    registry().iter().position(|t| t.name == name)
}

/// Honest image `seed` of type `id` (cached).
pub fn honest_image(id: usize, seed: u64) -> Arc<Image> {
    static C: OnceLock<Mutex<HashMap<(usize, u64), Arc<Image>>>> = OnceLock::new();
    let c = C.get_or_init(|| Mutex::new(HashMap::new()));
    if let Some(i) = c.lock().unwrap().get(&(id, seed)) {
        return i.clone();
    }
    let img = Arc::new((registry()[id].honest)(seed));
    c.lock().unwrap().insert((id, seed), img.clone());
    img
}

pub fn commitment_g1_of(b: &BlindingFactor) -> Commitment<G1Projective> {
    commitment_from(&(G1Projective::generator() * b.as_scalar()))
}

#[allow(dead_code)]
pub fn keypair_copy<const N: usize>(k: &KeyPair<N>) -> KeyPair<N> {
    proto::copy(k)
}

#[allow(dead_code)]
pub fn public_key_of<const N: usize>(k: &KeyPair<N>) -> PublicKey<N> {
    k.public_key().clone()
}

#[allow(dead_code)]
pub fn proofs_compile_check() -> Option<(CommitmentProof<G1Projective, 1>, SignatureProof<1>, SignatureRequestProof<1>)> {
    None
}
