//! C12 — Challenges bind every first-message element and match for prover and verifier.
//! Library level here; the zkAbacus level (establish / pay proofs through the challenge-recorder
//! hook) is in `c12z.rs`.

use super::c08::{change_atom, replaceable, AtomChange};
use super::c10::range_params;
use super::common::*;
use crate::engine::wire::{self, Image};
use crate::engine::{enum_check, prop_check, CheckDef, Ctx, Fail, Rec, Tier, R};
use bls12_381::{G1Affine, G1Projective, G2Affine, G2Projective, Scalar};
use group::{Curve, Group};
use proptest::prelude::*;
use serde::{de::DeserializeOwned, Deserialize, Serialize};
use serde_json::json;
use zkchannels_crypto::{
    pedersen::{Commitment, PedersenParameters},
    pointcheval_sanders::{BlindedMessage, BlindedSignature, PublicKey, Signature},
    proofs::{
        ChallengeBuilder, ChallengeInput, CommitmentProof, CommitmentProofBuilder, RangeConstraint,
        RangeConstraintBuilder, RangeConstraintParameters, SignatureProof, SignatureProofBuilder,
        SignatureRequestProof, SignatureRequestProofBuilder,
    },
    Message,
};

#[derive(Clone, Copy, Debug, Serialize, Deserialize, Hash, PartialEq, Eq)]
pub enum Ty {
    Elements,
    CommitmentG1,
    CommitmentG2,
    PedersenG1,
    PedersenG2,
    PublicKey,
    Signature,
    BlindedSignature,
    BlindedMessage,
    CommitmentProofG1,
    CommitmentProofG2,
    SignatureProof,
    SignatureRequestProof,
    RangeParameters,
    RangeConstraint,
}

const ALL_TY: [Ty; 15] = [
    Ty::Elements,
    Ty::CommitmentG1,
    Ty::CommitmentG2,
    Ty::PedersenG1,
    Ty::PedersenG2,
    Ty::PublicKey,
    Ty::Signature,
    Ty::BlindedSignature,
    Ty::BlindedMessage,
    Ty::CommitmentProofG1,
    Ty::CommitmentProofG2,
    Ty::SignatureProof,
    Ty::SignatureRequestProof,
    Ty::RangeParameters,
    Ty::RangeConstraint,
];

fn generic_in_n(t: Ty) -> bool {
    matches!(
        t,
        Ty::PedersenG1
            | Ty::PedersenG2
            | Ty::PublicKey
            | Ty::Signature
            | Ty::BlindedSignature
            | Ty::BlindedMessage
            | Ty::CommitmentProofG1
            | Ty::CommitmentProofG2
            | Ty::SignatureProof
            | Ty::SignatureRequestProof
    )
}

#[derive(Clone, Debug, Serialize, Deserialize)]
pub struct Case {
    ty: Ty,
    n_idx: u8,
    seed: u64,
    msg: Vec<ScSpec>,
    /// this case handles the atoms with index = part (mod parts)
    part: u8,
    parts: u8,
}

fn ch<T: ChallengeInput>(v: &T) -> Scalar {
    ChallengeBuilder::new().with(v).finish().to_scalar()
}

fn is_response(field: &str) -> bool {
    field == "blinding_factor_response_scalar" || field == "message_response_scalars"
}

/// Replace every replaceable atom of `v`'s wire form by a different valid value and require the
/// challenge to change (response scalars carry no claim and are only counted).
fn probe<T: Serialize + DeserializeOwned + ChallengeInput>(v: &T, ty: &str, n: usize, c: &Case, rec: &Rec) -> R {
    let seed = c.seed;
    let img = Image::must(v);
    let c0 = ch(v);
    // a decoded copy derives the same challenge
    let copy: T = wire::dec(&img.bytes).map_err(|e| Fail::new("harness/honest-value-undecodable", format!("{}: {}", ty, e)))?;
    ensure!(ch(&copy) == c0, format!("C12/{}/challenge-changes-across-round-trip", ty), "decode(encode(v)) derives another challenge");
    let mut nonresp = 0u64;
    for (k, i) in replaceable(&img).into_iter().enumerate() {
        if k % (c.parts.max(1) as usize) != c.part as usize {
            continue;
        }
        let a = &img.atoms[i];
        let delta = ScSpec::Rand(seed.wrapping_add(k as u64).wrapping_mul(0x2545_f491_4f6c_dd1d));
        // two replacements per atom: an unrelated value and the negated one (same x, other sign bit)
        for change in [AtomChange::Shift(delta), AtomChange::Negate] {
        let Some(bytes) = change_atom(&img, i, &change) else { continue };
        let v2: T = match wire::dec(&bytes) {
            Ok(x) => x,
            Err(_) => {
                rec.class("replacement-refused-by-decoder");
                continue;
            }
        };
        let c1 = ch(&v2);
        rec.eval(1);
        if is_response(&a.field) {
            rec.class(if c1 == c0 { "response-atom/not-hashed(no-claim)" } else { "response-atom/hashed(no-claim)" });
            continue;
        }
        nonresp += 1;
        if c1 == c0 {
            return Err(Fail::new(
                format!("C12/{}/unhashed-atom/{}", ty, a.field),
                format!("replacing atom '{}' ({:?}) of a {} (N={}) by {} leaves the derived challenge unchanged", a.path, a.kind, ty, n, if matches!(change, AtomChange::Negate) { "its negation" } else { "a different value" }),
            )
            .obs("challenge unchanged", "challenge changes"));
        }
        rec.nontrivial((ty, n, a.path.clone(), matches!(change, AtomChange::Negate)));
        }
    }
    rec.class(&format!("{}/N={}", ty, n));
    rec.note("non-response-atoms-replaced", nonresp);
    rec.sample(ty, || json!({"type": ty, "N": n, "seed": seed, "atoms": img.atoms.iter().map(|a| a.path.clone()).take(24).collect::<Vec<_>>(), "non_response_atoms_replaced": nonresp}));
    Ok(())
}

fn same(rec: &Rec, ty: &str, a: Scalar, b: Scalar) -> R {
    rec.eval(1);
    ensure!(a == b, format!("C12/{}/builder-proof-challenge-differ", ty), "challenge from the builder differs from the challenge from the finished proof");
    Ok(())
}

fn run<const N: usize>(c: &Case, rec: &Rec) -> R {
    let mut r = rng(c.seed);
    let m = scalars::<N>(&c.msg);
    let k = keys::<N>(c.seed % 3);
    let pk: &PublicKey<N> = k.kp.public_key();
    match c.ty {
        Ty::PedersenG1 => probe(&PedersenParameters::<G1Projective, N>::new(&mut r), "PedersenParametersG1", N, c, rec),
        Ty::PedersenG2 => probe(&PedersenParameters::<G2Projective, N>::new(&mut r), "PedersenParametersG2", N, c, rec),
        Ty::PublicKey => probe(pk, "PublicKey", N, c, rec),
        Ty::Signature => probe(&Message::new(m).sign(&mut r, &k.kp), "Signature", N, c, rec),
        Ty::BlindedSignature => {
            let s: Signature = Message::new(m).sign(&mut r, &k.kp);
            let b: BlindedSignature = s.blind_and_randomize(&mut r, bf(&rand_scalar(c.seed)));
            probe(&b, "BlindedSignature", N, c, rec)
        }
        Ty::BlindedMessage => {
            let b: BlindedMessage = Message::new(m).blind(pk, bf(&rand_scalar(c.seed)));
            probe(&b, "BlindedMessage", N, c, rec)
        }
        Ty::CommitmentProofG1 => {
            let p = PedersenParameters::<G1Projective, N>::new(&mut r);
            let b = CommitmentProofBuilder::generate_proof_commitments(&mut r, Message::new(m), &[None; N], &p);
            let cb = ch(&b);
            let chal = ChallengeBuilder::new().with(&b).finish();
            let pr: CommitmentProof<G1Projective, N> = b.generate_proof_response(chal);
            same(rec, "CommitmentProofG1", cb, ch(&pr))?;
            probe(&pr, "CommitmentProofG1", N, c, rec)
        }
        Ty::CommitmentProofG2 => {
            let p = PedersenParameters::<G2Projective, N>::new(&mut r);
            let b = CommitmentProofBuilder::generate_proof_commitments(&mut r, Message::new(m), &[None; N], &p);
            let cb = ch(&b);
            let chal = ChallengeBuilder::new().with(&b).finish();
            let pr: CommitmentProof<G2Projective, N> = b.generate_proof_response(chal);
            same(rec, "CommitmentProofG2", cb, ch(&pr))?;
            probe(&pr, "CommitmentProofG2", N, c, rec)
        }
        Ty::SignatureProof => {
            let s: Signature = Message::new(m).sign(&mut r, &k.kp);
            let b = SignatureProofBuilder::<N>::generate_proof_commitments(&mut r, Message::new(m), s, &[None; N], pk);
            let cb = ch(&b);
            let chal = ChallengeBuilder::new().with(&b).finish();
            let pr: SignatureProof<N> = b.generate_proof_response(chal);
            same(rec, "SignatureProof", cb, ch(&pr))?;
            probe(&pr, "SignatureProof", N, c, rec)
        }
        Ty::SignatureRequestProof => {
            let b = SignatureRequestProofBuilder::<N>::generate_proof_commitments(&mut r, Message::new(m), &[None; N], pk);
            let cb = ch(&b);
            let chal = ChallengeBuilder::new().with(&b).finish();
            let pr: SignatureRequestProof<N> = b.generate_proof_response(chal);
            same(rec, "SignatureRequestProof", cb, ch(&pr))?;
            probe(&pr, "SignatureRequestProof", N, c, rec)
        }
        _ => unreachable!(),
    }
}

fn oracle(c: &Case, rec: &Rec) -> R {
    match c.ty {
        Ty::Elements => {
            // the five element types: any different element gives a different challenge, and the
            // affine / projective forms of one point agree
            let s = rand_scalar(c.seed);
            let d = rand_nonzero_scalar(c.seed ^ 0x55);
            let p1 = G1Projective::generator() * s;
            let p2 = G2Projective::generator() * s;
            let q1 = p1 + G1Projective::generator() * d;
            let q2 = p2 + G2Projective::generator() * d;
            rec.eval(7);
            ensure!(ch(&s) != ch(&(s + d)), "C12/Scalar/unhashed-atom", "different scalars, same challenge");
            ensure!(ch(&p1) != ch(&q1), "C12/G1Projective/unhashed-atom", "different G1 points, same challenge");
            ensure!(ch(&p2) != ch(&q2), "C12/G2Projective/unhashed-atom", "different G2 points, same challenge");
            let (a1, a2): (G1Affine, G2Affine) = (p1.to_affine(), p2.to_affine());
            ensure!(ch(&a1) != ch(&q1.to_affine()), "C12/G1Affine/unhashed-atom", "different G1 points, same challenge");
            ensure!(ch(&a2) != ch(&q2.to_affine()), "C12/G2Affine/unhashed-atom", "different G2 points, same challenge");
            ensure!(ch(&a1) == ch(&p1) && ch(&a2) == ch(&p2), "C12/affine-projective-differ", "affine and projective forms of a point derive different challenges");
            for t in ["Scalar", "G1Affine", "G2Affine", "G1Projective", "G2Projective"] {
                rec.nontrivial((t, c.seed));
            }
            rec.class("Elements");
            Ok(())
        }
        Ty::CommitmentG1 => {
            let v: Commitment<G1Projective> = commitment_from(&(G1Projective::generator() * rand_scalar(c.seed)));
            probe(&v, "CommitmentG1", 0, c, rec)
        }
        Ty::CommitmentG2 => {
            let v: Commitment<G2Projective> = commitment_from(&(G2Projective::generator() * rand_scalar(c.seed)));
            probe(&v, "CommitmentG2", 0, c, rec)
        }
        Ty::RangeParameters => {
            let p: RangeConstraintParameters = (*range_params(c.seed % 2)).clone();
            probe(&p, "RangeConstraintParameters", 0, c, rec)
        }
        Ty::RangeConstraint => {
            let p = range_params(0);
            let v = (c.seed >> 1) as i64;
            let b = RangeConstraintBuilder::generate_constraint_commitments(v, &p, &mut rng(c.seed)).map_err(|e| Fail::new("C12/range-prover-refused", e.to_string()))?;
            let cb = ch(&b);
            let chal = ChallengeBuilder::new().with(&b).finish();
            let rc: RangeConstraint = b.generate_constraint_response(chal);
            same(rec, "RangeConstraint", cb, ch(&rc))?;
            probe(&rc, "RangeConstraint", 0, c, rec)
        }
        _ => with_n!(n_of(c.n_idx), run(c, rec)),
    }
}

fn gen(ctx: &Ctx) -> Vec<Case> {
    let reps = ctx.tier.pick(1u64, 8u64);
    let mut out = Vec::new();
    let mut ctr = 0u64;
    for t in ALL_TY {
        let ns: Vec<u8> = if generic_in_n(t) { (0..6).collect() } else { vec![0] };
        for n_idx in ns {
            let r = if matches!(t, Ty::RangeParameters) { reps.min(2) } else { reps };
            for j in 0..r {
                ctr += 1;
                let seed = ctx.seed.wrapping_mul(0x9e37_79b9).wrapping_add(ctr * 1000 + j);
                // messages cycle through the edge lattice
                let specs = [ScSpec::Zero, ScSpec::One, ScSpec::MinusOne, ScSpec::Small(7), ScSpec::Rand(seed)];
                let msg: Vec<ScSpec> = (0..13).map(|i| specs[((i as u64 + ctr + j) % 5) as usize].clone()).collect();
                let parts = if matches!(t, Ty::RangeParameters) { 16 } else if matches!(t, Ty::RangeConstraint) { 4 } else { 1 };
                for part in 0..parts {
                    out.push(Case { ty: t, n_idx, seed, msg: Vec::clone(&msg), part, parts });
                }
            }
        }
    }
    out
}

// ---- raw bytes fed to the builder (contexts, public values) ----------------------------------

#[derive(Clone, Debug, Serialize, Deserialize)]
pub struct BytesCase {
    pre: Vec<u8>,
    data: Vec<u8>,
    post: Vec<u8>,
}

fn bytes_strategy(_t: Tier) -> impl Strategy<Value = BytesCase> {
    // lengths: short inputs, and inputs around and beyond the hash's block sizes (SHA3-256 absorbs
    // 136-byte blocks; 64/72/104/144/168 are the other common rates) so that buffering code is crossed
    let len = prop_oneof![
        4 => 1usize..97,
        3 => proptest::sample::select(vec![63usize, 64, 65, 71, 72, 73, 103, 104, 105, 127, 128, 129, 135, 136, 137, 143, 144, 145, 167, 168, 169, 271, 272, 273, 407, 408, 409, 544, 545]),
        2 => 97usize..700,
    ];
    let pre = prop_oneof![3 => 0usize..40, 1 => proptest::sample::select(vec![0usize, 135, 136, 137, 200, 272])];
    (pre, len, 0usize..40, any::<u64>())
        .prop_map(|(pl, dl, ql, seed)| {
            let mut g = rng(seed);
            let mut mk = |n: usize| {
                let mut v = vec![0u8; n];
                rand_core::RngCore::fill_bytes(&mut g, &mut v);
                v
            };
            BytesCase { pre: mk(pl), data: mk(dl), post: mk(ql) }
        })
}

fn bytes_oracle(c: &BytesCase, rec: &Rec) -> R {
    let f = |d: &[u8]| ChallengeBuilder::new().with_bytes(&c.pre).with_bytes(d).with_bytes(&c.post).finish().to_scalar();
    let c0 = f(&c.data);
    // documented construction: SHA3-256 over the consumed bytes, reduced to a scalar
    let mut all = c.pre.clone();
    all.extend_from_slice(&c.data);
    all.extend_from_slice(&c.post);
    ensure!(c0 == crate::engine::refmath::challenge_of(&all), "C12/challenge-not-sha3-of-input", "challenge is not the reduced SHA3-256 digest of the consumed bytes");
    for i in 0..c.data.len() {
        for bit in [0x01u8, 0x80u8] {
            let mut d = c.data.clone();
            d[i] ^= bit;
            rec.eval(1);
            ensure!(f(&d) != c0, "C12/context-byte-not-bound", "flipping byte {} of a {}-byte input leaves the challenge unchanged", i, c.data.len());
        }
    }
    let mut longer = c.data.clone();
    longer.push(0);
    let mut all2 = c.pre.clone();
    all2.extend_from_slice(&longer);
    all2.extend_from_slice(&c.post);
    if all2 != all {
        ensure!(f(&longer) != c0, "C12/context-byte-not-bound", "appending a byte leaves the challenge unchanged");
    }
    rec.nontrivial((c.data.clone(), c.pre.len(), c.post.len()));
    rec.class(&format!("len/{}", if c.data.len() >= 136 { ">=136(block)".to_string() } else { (c.data.len() / 32 * 32).to_string() }));
    rec.sample("bytes", || json!({"pre_len": c.pre.len(), "data_len": c.data.len(), "post_len": c.post.len()}));
    Ok(())
}

pub fn checks() -> Vec<CheckDef> {
    let mut v = vec![
        enum_check(
            "lib-atoms",
            "enumerated: every ChallengeInput type of the library (5 element types, Commitment<G1|G2>, PedersenParameters<G1|G2,N>, PublicKey<N>, Signature, BlindedSignature, BlindedMessage, CommitmentProof<G1|G2,N>, SignatureProof<N>, SignatureRequestProof<N>, RangeConstraintParameters, RangeConstraint; N in {1,2,3,5,8,13}) x every replaceable atom of its traced wire form; oracle: builder challenge == proof challenge; replacing any non-response atom by a different valid atom changes the challenge (metamorphic, sound up to SHA3 collisions); non-trivial = each (type, N, atom path) whose replacement was evaluated",
            &[],
            true,
            gen,
            oracle,
        ),
        prop_check(
            "byte-inputs",
            "generated byte strings (prefix of 0-39 or 135-272 bytes, input of 1-700 bytes with lengths around every common hash block size, suffix) fed with with_bytes; oracle: challenge == reduced SHA3-256 of the concatenation (reference), and flipping any byte (low and high bit) or appending a byte changes it; distinct by input",
            &["len/>=136(block)"],
            (300, 20_000),
            bytes_strategy,
            bytes_oracle,
        ),
    ];
    v.extend(super::c12z::checks());
    v
}
