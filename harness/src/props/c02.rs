//! C02 — Merchant approves payments only for a correct, unspent, in-range state update.

use super::common::*;
use crate::engine::refmath::{ps_verify, u64_scalar, i128_scalar};
use crate::engine::wire::{self, Image};
use crate::engine::{prop_check, CheckDef, Fail, Rec, Tier, R};
use crate::model::forger::*;
use crate::model::history::{amt_sel, AmtSel, MAXB};
use crate::model::proto;
use bls12_381::{G1Projective, Scalar};
use group::Curve;
use proptest::prelude::*;
use serde::{Deserialize, Serialize};
use serde_json::json;
use std::collections::HashMap;
use std::sync::{Arc, Mutex, OnceLock};
use zkabacus_crypto::{
    revlock::{RevocationLockBlindingFactor, RevocationPair},
    Nonce, PayProof,
};
use zkchannels_crypto::proofs::verif_hooks::drain;

#[derive(Clone, Debug, Serialize, Deserialize, Hash, PartialEq, Eq)]
pub enum PayLie {
    None,
    /// the nonce given to the merchant is not the token's (double spend)
    WrongNonce(u64),
    /// amount applied to the customer balance only / merchant balance only
    AmountOneSide(bool),
    /// new customer balance off by delta (conservation broken)
    AmountOff(bool, ScSpec),
    SignFlipped,
    /// pay more than the customer has: new customer balance is -1 (range constraint built for `alt`)
    Overdraw(u8),
    /// new merchant balance above 2^63-1 by construction (customer refunds more than the merchant has is
    /// the mirrored case): merchant balance -1
    MerchantOverdraw(u8),
    /// channel id replaced in the new state and/or close state (0 both, 1 state only, 2 close only)
    ForeignCid(u8, ScSpec),
    /// close tag slot replaced (0 fresh nonce, 1 zero, 2 random)
    TagReplaced(u8, u64),
    /// the lock committed for revocation is not the token's lock
    OldLockMismatch(ScSpec),
    /// new lock differs between state and close state
    NewLockMismatch(ScSpec),
    /// the close state carries another customer (true) / merchant (false) balance than the new state
    CloseBalanceMismatch(bool, ScSpec),
    /// slot (0 cid, 2 lock, 3 cb, 4 mb) raised by delta in the new state and lowered by delta in the
    /// close state (cancels in an unweighted aggregate of the two sub-proofs)
    Compensating(u8, ScSpec),
    /// token signed under another merchant's key
    TokenOtherKey,
    /// token with sigma2 shifted (not a valid signature)
    TokenShifted(ScSpec),
    /// valid token, but the old message claimed differs from the signed one (slot 3 or 4)
    TokenForOtherState(bool, ScSpec),
    /// no token at all: the blinded signature shown is (P, P) for the curve point P = (0, 2) of order 3,
    /// which lies outside the prime-order subgroup - not the identity, and its pairing with anything
    /// is 1, so the pairing link holds for whatever old state is claimed (slot 3 or 4 raised)
    TokenOutsideSubgroup(bool, ScSpec),
}

impl PayLie {
    fn label(&self) -> String {
        match self {
            PayLie::None => "none".into(),
            PayLie::WrongNonce(_) => "wrong-nonce(double-spend)".into(),
            PayLie::AmountOneSide(c) => format!("amount-on-{}-only", if *c { "customer" } else { "merchant" }),
            PayLie::AmountOff(..) => "amount-off".into(),
            PayLie::SignFlipped => "sign-flipped".into(),
            PayLie::Overdraw(_) => "customer-balance-negative".into(),
            PayLie::MerchantOverdraw(_) => "merchant-balance-negative".into(),
            PayLie::ForeignCid(w, _) => format!("foreign-channel-id/{}", ["both", "state", "close"][*w as usize % 3]),
            PayLie::TagReplaced(w, _) => format!("close-tag-replaced/{}", ["fresh-nonce", "zero", "random"][*w as usize % 3]),
            PayLie::OldLockMismatch(_) => "old-lock-mismatch".into(),
            PayLie::NewLockMismatch(_) => "new-lock-mismatch".into(),
            PayLie::CloseBalanceMismatch(c, _) => format!("close-state-{}-balance-differs", if *c { "customer" } else { "merchant" }),
            PayLie::Compensating(s, _) => format!("compensating-slot-{}", s),
            PayLie::TokenOtherKey => "token-of-other-key".into(),
            PayLie::TokenShifted(_) => "token-tampered".into(),
            PayLie::TokenForOtherState(..) => "token-for-other-state".into(),
            PayLie::TokenOutsideSubgroup(..) => "no-token/points-outside-the-subgroup".into(),
        }
    }
}

pub fn pay_strategy_label(s: &PayStrategy) -> String {
    let f = |f: &PayField| match f {
        PayField::Token => "token-proof".to_string(),
        PayField::RevLock => "lock-proof".to_string(),
        PayField::State => "state-proof".to_string(),
        PayField::Close => "close-proof".to_string(),
        PayField::CbDigit(_) => "customer-digit-proof".to_string(),
        PayField::MbDigit(_) => "merchant-digit-proof".to_string(),
    };
    match s {
        PayStrategy::Plain => "plain".into(),
        PayStrategy::RevealedLast => "revealed-scalars-chosen-after-challenge".into(),
        PayStrategy::RevealedOne(i) => format!("revealed-{}-scalar-chosen-after-challenge", if i % 2 == 0 { "nonce" } else { "tag" }),
        PayStrategy::TLast(x, fr) => format!("scalar-commitment-of-{}-chosen-after-challenge{}", f(x), if *fr { "+revealed" } else { "" }),
        PayStrategy::CLast(x, fr) => format!("commitment-of-{}-chosen-after-challenge{}", f(x), if *fr { "+revealed" } else { "" }),
        PayStrategy::Mutate(..) => "mutated-atoms".into(),
        PayStrategy::AnswerAsAgreed => "responses-as-if-truthful-values-were-committed".into(),
    }
}

#[derive(Clone, Debug, Serialize, Deserialize)]
pub struct Case {
    source: u8,
    amount: AmtSel,
    lie: PayLie,
    strategy: PayStrategy,
    seed: u64,
}

fn lie_strategy() -> impl Strategy<Value = PayLie> {
    prop_oneof![
        1 => Just(PayLie::None),
        4 => any::<u64>().prop_map(PayLie::WrongNonce),
        2 => any::<bool>().prop_map(PayLie::AmountOneSide),
        2 => (any::<bool>(), delta_spec()).prop_map(|(a, d)| PayLie::AmountOff(a, d)),
        1 => Just(PayLie::SignFlipped),
        4 => (0u8..5).prop_map(PayLie::Overdraw),
        3 => (0u8..5).prop_map(PayLie::MerchantOverdraw),
        3 => (prop_oneof![Just(0u8), Just(2u8), Just(3u8), Just(4u8)], delta_spec()).prop_map(|(s, d)| PayLie::Compensating(s, d)),
        2 => (0u8..3, delta_spec()).prop_map(|(w, d)| PayLie::ForeignCid(w, d)),
        3 => (0u8..3, any::<u64>()).prop_map(|(w, s)| PayLie::TagReplaced(w, s)),
        2 => delta_spec().prop_map(PayLie::OldLockMismatch),
        2 => delta_spec().prop_map(PayLie::NewLockMismatch),
        3 => (any::<bool>(), delta_spec()).prop_map(|(a, d)| PayLie::CloseBalanceMismatch(a, d)),
        1 => Just(PayLie::TokenOtherKey),
        1 => delta_spec().prop_map(PayLie::TokenShifted),
        2 => (any::<bool>(), delta_spec()).prop_map(|(a, d)| PayLie::TokenForOtherState(a, d)),
        1 => (any::<bool>(), delta_spec()).prop_map(|(a, d)| PayLie::TokenOutsideSubgroup(a, d)),
    ]
}

fn field_strategy() -> impl Strategy<Value = PayField> {
    prop_oneof![
        3 => Just(PayField::Token),
        2 => Just(PayField::RevLock),
        3 => Just(PayField::State),
        3 => Just(PayField::Close),
        1 => (0u8..9).prop_map(PayField::CbDigit),
        1 => (0u8..9).prop_map(PayField::MbDigit),
    ]
}

fn strat_strategy() -> impl Strategy<Value = PayStrategy> {
    prop_oneof![
        3 => Just(PayStrategy::Plain),
        4 => Just(PayStrategy::RevealedLast),
        2 => (0u8..2).prop_map(PayStrategy::RevealedOne),
        5 => (field_strategy(), any::<bool>()).prop_map(|(f, r)| PayStrategy::TLast(f, r)),
        5 => (field_strategy(), any::<bool>()).prop_map(|(f, r)| PayStrategy::CLast(f, r)),
        1 => (any::<u8>(), any::<u64>()).prop_map(|(n, s)| PayStrategy::Mutate(n, s)),
        2 => Just(PayStrategy::AnswerAsAgreed),
    ]
}

/// The sub-proof a lie is "about": a post-challenge choice on that sub-proof is the strategy with
/// the best chance, so half of the attempts aim there.
fn natural_field(lie: &PayLie, alt: bool) -> Option<PayField> {
    Some(match lie {
        PayLie::None => return None,
        PayLie::WrongNonce(_) | PayLie::TokenOtherKey | PayLie::TokenShifted(_) | PayLie::TokenForOtherState(..) | PayLie::TokenOutsideSubgroup(..) => PayField::Token,
        PayLie::OldLockMismatch(_) => if alt { PayField::Token } else { PayField::RevLock },
        PayLie::TagReplaced(..) | PayLie::NewLockMismatch(_) | PayLie::CloseBalanceMismatch(..) | PayLie::Compensating(..) => PayField::Close,
        PayLie::ForeignCid(w, _) => if w % 3 == 2 { PayField::Close } else { PayField::State },
        PayLie::AmountOneSide(_) | PayLie::AmountOff(..) | PayLie::SignFlipped => if alt { PayField::Token } else { PayField::State },
        PayLie::Overdraw(k) => if alt { PayField::State } else { PayField::CbDigit(*k) },
        PayLie::MerchantOverdraw(k) => if alt { PayField::State } else { PayField::MbDigit(*k) },
    })
}

fn strategy(t: Tier) -> impl Strategy<Value = Case> {
    (0u8..t.pick(4, 12), amt_sel(), lie_strategy(), strat_strategy(), any::<bool>(), any::<bool>(), any::<u64>()).prop_map(|(source, amount, lie, strategy, matched, alt, seed)| {
        let strategy = match (&strategy, matched, natural_field(&lie, alt)) {
            // cancelling lies / cancelling digit pairs only have a chance with these strategies
            (_, true, _) if matches!(lie, PayLie::Compensating(..)) => PayStrategy::AnswerAsAgreed,
            (_, true, _) if matches!(lie, PayLie::Overdraw(3) | PayLie::Overdraw(4) | PayLie::MerchantOverdraw(3) | PayLie::MerchantOverdraw(4)) => PayStrategy::Plain,
            (PayStrategy::TLast(_, fr), true, Some(f)) => PayStrategy::TLast(f, *fr),
            (PayStrategy::CLast(_, fr), true, Some(f)) => PayStrategy::CLast(f, *fr),
            _ => strategy,
        };
        Case { source, amount, lie, strategy, seed }
    })
}

/// A pay-token source: a Ready state reached by an honest history.
pub struct Source {
    pub m: Arc<proto::Merchant>,
    pub ctx_seed: u64,
    pub ready_img: Image,
    pub cb: u64,
    pub mb: u64,
}

pub fn source(idx: u8) -> Arc<Source> {
    static C: OnceLock<Mutex<HashMap<u8, Arc<Source>>>> = OnceLock::new();
    let c = C.get_or_init(|| Mutex::new(HashMap::new()));
    if let Some(s) = c.lock().unwrap().get(&idx) {
        return s.clone();
    }
    let seed = 0x50_0000 + idx as u64;
    let m = proto::merchant(idx as u64 % 2);
    let cid = proto::channel_id(&m, seed);
    let ctx = proto::context(seed);
    // balances: a few boundary shapes and ordinary ones
    let (mut cb, mut mb): (u64, u64) = match idx % 6 {
        0 => (1000, 1000),
        1 => (0, 500),
        2 => (MAXB, 0),
        3 => (1 << 40, MAXB - (1 << 41)),
        4 => (7, 0),
        _ => (123_456_789, 987_654_321),
    };
    let mut ready = proto::establish(&m, &cid, cb, mb, &ctx, seed).expect("establish").ready;
    // 0-2 earlier payments of either sign
    for k in 0..(idx % 3) as u64 {
        let amt: i64 = if k % 2 == 0 { (cb.min(5)) as i64 } else { -((mb.min(3)) as i64) };
        ready = proto::pay(&m, ready, amt, &ctx, seed + k).expect("honest payment");
        cb = (cb as i128 - amt as i128) as u64;
        mb = (mb as i128 + amt as i128) as u64;
    }
    let s = Arc::new(Source { m, ctx_seed: seed, ready_img: Image::must(&ready), cb, mb });
    c.lock().unwrap().insert(idx, s.clone());
    s
}

pub fn pay_template(m: &proto::Merchant) -> Image {
    static C: OnceLock<Mutex<HashMap<u64, Image>>> = OnceLock::new();
    let c = C.get_or_init(|| Mutex::new(HashMap::new()));
    if let Some(i) = c.lock().unwrap().get(&m.seed) {
        return i.clone();
    }
    let cid = proto::channel_id(m, 0x7e);
    let ctx = proto::context(0x7e);
    let ready = proto::establish(m, &cid, 10, 10, &ctx, 0x7e).expect("establish").ready;
    let (_, msg) = proto::start(m, ready, 1, &ctx, 0x7e).expect("start");
    let img = Image::must(&msg.pay_proof);
    c.lock().unwrap().insert(m.seed, img.clone());
    img
}

fn scalar_in_range(s: &Scalar) -> bool {
    let b = s.to_bytes();
    b[8..].iter().all(|x| *x == 0) && b[7] & 0x80 == 0
}

struct Knowledge {
    token_valid_on_old: bool,
}

fn statement_holds(p: &PayPublic, a: &PayAttempt, k: &Knowledge) -> bool {
    let (o, s, c) = (&a.old_opening, &a.state_opening, &a.close_opening);
    k.token_valid_on_old
        && o[1] == p.nonce
        && s[0] == o[0]
        && c[0] == o[0]
        && s[3] == o[3] - p.amount
        && s[4] == o[4] + p.amount
        && scalar_in_range(&s[3])
        && scalar_in_range(&s[4])
        && c[1] == CLOSE
        && c[2] == s[2]
        && c[3] == s[3]
        && c[4] == s[4]
        && a.revoked_lock == o[2]
}

fn oracle(c: &Case, rec: &Rec) -> R {
    let src = source(c.source);
    let m = &src.m;
    let ctx = proto::context(src.ctx_seed);
    let template = pay_template(m);
    // (L, u) as the encodings state them
    let u = m.range_img.atoms.iter().filter(|a| a.path.starts_with("digit_signatures.") && a.path.ends_with(".sigma1")).count() as u64;
    let l = template.atoms.iter().filter(|a| a.path.starts_with("customer_balance_proof.digit_proofs.") && a.path.ends_with(".blinded_signature.sigma1")).count();
    let img = &src.ready_img;
    let old = proto::state_message(img, "state", false);
    let mut token = (img.g1("pay_token.sigma1"), img.g1("pay_token.sigma2"));

    // an in-range amount (the lie, if any, is applied on top of an otherwise honest payment)
    let mut amt = c.amount.get(src.cb, src.mb);
    let fits = |a: i128| a.unsigned_abs() <= MAXB as u128 && src.cb as i128 - a >= 0 && src.cb as i128 - a <= MAXB as i128 && src.mb as i128 + a >= 0 && src.mb as i128 + a <= MAXB as i128;
    if !fits(amt) {
        amt = 0;
    }
    let (mut ncb, mut nmb) = (src.cb as i128 - amt, src.mb as i128 + amt);
    let n_new = rand_scalar(c.seed ^ 0x21);
    let l_new = rand_scalar(c.seed ^ 0x22);
    let mut nonce_pub = old[1];
    let mut old_claim = old;
    let mut cid_state = old[0];
    let mut cid_close = old[0];
    let mut tag = CLOSE;
    let mut revoked = old[2];
    let mut l_close = l_new;
    let mut digits_for: (Option<i128>, Option<i128>) = (None, None); // override the value the range digits encode
    match &c.lie {
        PayLie::None => {}
        PayLie::WrongNonce(s) => nonce_pub = rand_scalar(*s),
        PayLie::AmountOneSide(cust) => {
            if *cust {
                nmb = src.mb as i128;
            } else {
                ncb = src.cb as i128;
            }
        }
        PayLie::AmountOff(cust, d) => {
            let dv: i128 = match d {
                ScSpec::One => 1,
                ScSpec::MinusOne => -1,
                ScSpec::Small(v) => *v as i128,
                ScSpec::Rand(r) => (*r >> 40) as i128 + 1,
                ScSpec::Zero => 1,
                _ => 1,
            };
            if *cust {
                ncb += dv;
            } else {
                nmb += dv;
            }
        }
        PayLie::SignFlipped => {
            ncb = src.cb as i128 + amt;
            nmb = src.mb as i128 - amt;
        }
        PayLie::Overdraw(alt) => {
            // public amount cb+1: the customer balance would be -1
            amt = src.cb as i128 + 1;
            ncb = -1;
            nmb = src.mb as i128 + amt;
            digits_for.0 = Some(match alt % 4 { 0 | 3 => 0, 1 => (1i128 << 63) - 1, _ => 1 });
        }
        PayLie::MerchantOverdraw(alt) => {
            amt = -(src.mb as i128 + 1);
            nmb = -1;
            ncb = src.cb as i128 - amt;
            digits_for.1 = Some(match alt % 4 { 0 | 3 => 0, 1 => (1i128 << 63) - 1, _ => 1 });
        }
        PayLie::ForeignCid(w, d) => {
            if w % 3 != 2 {
                cid_state += nonzero(d);
            }
            if w % 3 != 1 {
                cid_close += nonzero(d);
            }
        }
        PayLie::TagReplaced(w, s) => {
            tag = match w % 3 {
                0 => rand_scalar(*s),
                1 => Scalar::zero(),
                _ => rand_scalar(s.wrapping_add(99)),
            }
        }
        PayLie::OldLockMismatch(d) => revoked += nonzero(d),
        PayLie::NewLockMismatch(d) => l_close += nonzero(d),
        PayLie::CloseBalanceMismatch(..) | PayLie::Compensating(..) => {} // applied to the messages below
        PayLie::TokenOtherKey => {
            let other = proto::merchant(m.seed + 500);
            let hh = G1Projective::from(other.pk.g1) * rand_nonzero_scalar(c.seed ^ 0x31);
            let mut e = other.sk.x;
            for i in 0..5 {
                e += other.sk.ys[i] * old[i];
            }
            token = (hh.to_affine(), (hh * e).to_affine());
        }
        PayLie::TokenShifted(d) => {
            token.1 = (G1Projective::from(token.1) + G1Projective::from(token.0) * nonzero(d)).to_affine();
        }
        PayLie::TokenForOtherState(cust, d) | PayLie::TokenOutsideSubgroup(cust, d) => {
            // claim another (richer, where there is room) old state than the one the token signs; the
            // new state follows the claimed old state and stays in range, so that nothing but the
            // token is wrong with the attempt
            let k = if *cust { 3 } else { 4 };
            let mut dv: i128 = match d {
                ScSpec::Small(v) => (*v as i128).max(1),
                ScSpec::Rand(r) => (*r >> 44) as i128 + 1,
                _ => 1,
            };
            let cur = if *cust { ncb } else { nmb };
            let room = MAXB as i128 - cur;
            if dv > room {
                dv = if room > 0 { room } else { -1 };
            }
            old_claim[k] += i128_scalar(dv);
            if *cust {
                ncb += dv;
            } else {
                nmb += dv;
            }
        }
    }
    match &c.lie {
        PayLie::TokenOutsideSubgroup(..) => {
            let mut e = [0u8; 48];
            e[0] = 0x80;
            let p3: Option<bls12_381::G1Affine> = bls12_381::G1Affine::from_compressed_unchecked(&e).into();
            let p3 = p3.expect("(0, 2) is on the curve");
            token = (p3, p3);
        }
        _ => {}
    }
    if amt.unsigned_abs() > MAXB as u128 {
        rec.class("amount-not-representable");
        return Ok(());
    }
    // new balances as scalars (possibly negative / out of range for the lies)
    let s_cb = i128_scalar(ncb);
    let s_mb = i128_scalar(nmb);
    let clamp = |v: i128| -> u128 {
        if v < 0 || v > MAXB as i128 {
            0
        } else {
            v as u128
        }
    };
    let cb_digits = to_digits(clamp(digits_for.0.unwrap_or(ncb)), u, l);
    let mb_digits = to_digits(clamp(digits_for.1.unwrap_or(nmb)), u, l);
    let hidden = PayHidden {
        old: old_claim,
        token,
        state: [cid_state, n_new, l_new, s_cb, s_mb],
        close: match &c.lie {
            PayLie::CloseBalanceMismatch(true, d) => [cid_close, tag, l_close, s_cb + nonzero(d), s_mb],
            PayLie::CloseBalanceMismatch(false, d) => [cid_close, tag, l_close, s_cb, s_mb + nonzero(d)],
            _ => [cid_close, tag, l_close, s_cb, s_mb],
        },
        revoked_lock: revoked,
        cb_digits,
        mb_digits,
        // variant 3 of the overdraw lies: digits of 0 with "digit" 0 claimed as -1, so that the digit
        // sum really is the negative balance (every digit proof but one is then a true statement)
        cb_digit0_shift: if matches!(c.lie, PayLie::Overdraw(3)) { -Scalar::one() } else { Scalar::zero() },
        mb_digit0_shift: if matches!(c.lie, PayLie::MerchantOverdraw(3)) { -Scalar::one() } else { Scalar::zero() },
        // variant 4: two jointly crafted digit proofs whose pairing errors cancel, aimed at -1
        cb_cancel: if matches!(c.lie, PayLie::Overdraw(4)) { Some(-Scalar::one()) } else { None },
        mb_cancel: if matches!(c.lie, PayLie::MerchantOverdraw(4)) { Some(-Scalar::one()) } else { None },
        raw_token: matches!(c.lie, PayLie::TokenOutsideSubgroup(..)),
    };
    // compensating lies: one slot raised in the new state and lowered in the close state
    let mut hidden = hidden;
    if let PayLie::Compensating(s, d) = &c.lie {
        let k = match *s { 0 => 0usize, 2 => 2, 3 => 3, _ => 4 };
        hidden.state[k] += nonzero(d);
        hidden.close[k] -= nonzero(d);
    }
    // what a truthful prover would have committed to for this payment
    let truthful = (old, [old[0], n_new, l_new, i128_scalar(src.cb as i128 - amt), i128_scalar(src.mb as i128 + amt)], [old[0], CLOSE, l_new, i128_scalar(src.cb as i128 - amt), i128_scalar(src.mb as i128 + amt)], old[2]);
    let public = PayPublic { nonce: nonce_pub, amount: i128_scalar(amt) };
    let know = Knowledge { token_valid_on_old: ps_verify(&m.pk, &hidden.old, &token.0, &token.1) };
    let amount_v = proto::amount(amt as i64);
    let nonce_v: Nonce = match wire::dec(&nonce_pub.to_bytes()) {
        Ok(n) => n,
        Err(_) => {
            rec.class("nonce-not-decodable");
            return Ok(());
        }
    };

    let mut f = PayForger::commit(m, &template, &hidden, c.seed);
    f.truthful = Some(truthful);
    let draft: PayProof = match wire::dec(&f.bytes()) {
        Ok(d) => d,
        Err(_) if matches!(c.lie, PayLie::TokenOutsideSubgroup(..)) => {
            // the decoder refuses points outside the subgroup: the attempt never reaches the verifier
            rec.eval(1);
            rec.class(&format!("{}/refused-by-the-decoder", c.lie.label()));
            rec.nontrivial((c.lie.label(), format!("{:?}", c.strategy), c.seed));
            return Ok(());
        }
        Err(e) => return Err(Fail::new("harness/draft-undecodable", e)),
    };
    let _ = drain();
    let _ = m.cfg.allow_payment(&mut rng(c.seed), amount_v, &nonce_v, draft, &ctx);
    let Some((_, ch)) = drain().last().cloned() else {
        return Err(Fail::new("harness/no-challenge-recorded", "allow_payment derived no challenge"));
    };
    f.respond(&ch, &public, &c.strategy, c.seed);
    let mutate = match &c.strategy {
        PayStrategy::Mutate(n, s) => Some((*n, *s)),
        _ => None,
    };
    let att = f.attempt(mutate);
    ensure!(att.openings_consistent, "harness/forger-opening-inconsistent", "forger lost track of an opening");
    let holds = statement_holds(&public, &att, &know);
    let lie_l = c.lie.label();
    let strat_l = pay_strategy_label(&c.strategy);
    let Ok(fin) = wire::dec::<PayProof>(&att.bytes) else {
        rec.class("decode-rejected");
        return Ok(());
    };
    let res = m.cfg.allow_payment(&mut rng(c.seed ^ 1), amount_v, &nonce_v, fin, &ctx);
    rec.eval(1);
    let accepted = res.is_some();

    if matches!(c.lie, PayLie::None) && matches!(c.strategy, PayStrategy::Plain) {
        ensure!(accepted, "harness/forger-control-rejected", "the forger's honest control payment was rejected: layout or transcript drift");
        ensure!(holds, "harness/control-statement", "control statement does not hold");
        let (unrevoked, closing) = res.unwrap();
        // the closing signature covers exactly old -/+ amount
        let cimg = Image::must(&closing);
        let s1 = cimg.g1("sigma1");
        let s2 = (G1Projective::from(cimg.g1("sigma2")) - G1Projective::from(s1) * att.close_bf).to_affine();
        let expect_close = [old[0], CLOSE, l_new, u64_scalar((src.cb as i128 - amt) as u64), u64_scalar((src.mb as i128 + amt) as u64)];
        rec.eval(3);
        ensure!(ps_verify(&m.pk, &expect_close, &s1, &s2), "C02/closing-signature-not-on-updated-balances", "the closing signature of an accepted payment is not valid on (cid, CLOSE, new lock, cb - amount, mb + amount)");
        for k in [3usize, 4] {
            let mut alt = expect_close;
            alt[k] += Scalar::one();
            ensure!(!ps_verify(&m.pk, &alt, &s1, &s2), "C02/closing-signature-on-other-balances", "the closing signature verifies on other balances");
        }
        // the revocation-lock commitment handed back commits to the old state's lock
        let mut pb = Vec::new();
        pb.extend_from_slice(img.get("state.revocation_pair.lock"));
        pb.extend_from_slice(img.get("state.revocation_pair.secret.secret"));
        pb.extend_from_slice(img.get("state.revocation_pair.secret.index"));
        let pair: RevocationPair = wire::dec(&pb).map_err(|e| Fail::new("harness/pair", e))?;
        let bfv: RevocationLockBlindingFactor = wire::dec(&att.rev_bf.to_bytes()).map_err(|e| Fail::new("harness/bf", e))?;
        let tok = unrevoked.complete_payment(&mut rng(c.seed ^ 2), &pair, &bfv);
        ensure!(tok.is_ok(), "C02/revocation-commitment-not-on-old-lock", "complete_payment refused the old state's pair with the prover's blinding factor");
        let timg = Image::must(&tok.unwrap());
        let t1 = timg.g1("sigma1");
        let t2 = (G1Projective::from(timg.g1("sigma2")) - G1Projective::from(t1) * att.state_bf).to_affine();
        ensure!(ps_verify(&m.pk, &att.state_opening, &t1, &t2), "C02/pay-token-not-on-new-state", "the new pay token is not valid on the new state");
        rec.class("control/accepted");
        rec.sample("control", || json!({"source": c.source, "cb": src.cb.to_string(), "mb": src.mb.to_string(), "amount": amt.to_string()}));
        return Ok(());
    }

    if accepted && !holds {
        let (_, closing) = res.unwrap();
        let cimg = Image::must(&closing);
        let s1 = cimg.g1("sigma1");
        let s2 = (G1Projective::from(cimg.g1("sigma2")) - G1Projective::from(s1) * att.close_bf).to_affine();
        let exploit = ps_verify(&m.pk, &att.close_opening, &s1, &s2);
        let extra = if matches!(c.lie, PayLie::WrongNonce(_)) { " — the same pay token is accepted under a nonce it does not contain (double spend)" } else { "" };
        return Err(Fail::new(
            format!("C02/false-statement-accepted/{}", strat_l),
            format!("allow_payment accepted a pay proof for a false statement (lie: {}; strategy: {}){}; the returned closing signature unblinds to a valid signature on the attacker's close-state message: {}", lie_l, strat_l, extra, exploit),
        )
        .obs("accepted", "rejected"));
    }
    rec.class(&format!("lie/{}/{}", lie_l, if accepted { "accepted(statement-holds)" } else { "rejected" }));
    rec.class(&format!("strategy/{}", strat_l));
    rec.class(&format!("amount-sign/{}", if amt > 0 { "+" } else if amt < 0 { "-" } else { "0" }));
    if !matches!(c.lie, PayLie::None) {
        rec.nontrivial((lie_l.clone(), strat_l.clone(), amt.signum(), c.source));
    }
    rec.sample(&format!("{}/{}", lie_l, strat_l), || json!({"source": c.source, "cb": src.cb.to_string(), "mb": src.mb.to_string(), "amount": amt.to_string(), "lie": lie_l, "strategy": strat_l, "statement_holds_for_known_openings": holds, "accepted": accepted}));
    Ok(())
}

/// Deterministic controls: the forger's no-lie plain payment is the honest prover.
fn control_gen(ctx: &crate::engine::Ctx) -> Vec<Case> {
    let amounts = [AmtSel::Small(3, true), AmtSel::Zero, AmtSel::Small(2, false), AmtSel::Cb(true), AmtSel::Mb(false), AmtSel::InRange(ctx.seed)];
    (0..ctx.tier.pick(4usize, 12))
        .map(|i| Case { source: i as u8, amount: amounts[i % amounts.len()].clone(), lie: PayLie::None, strategy: PayStrategy::Plain, seed: ctx.seed.wrapping_mul(0x9e37_79b9).wrapping_add(i as u64) })
        .collect()
}

/// Every kind of lie with the post-challenge choice aimed at the sub-proof the lie is about (and at
/// its alternative), enumerated: the combinations the random search only meets with some probability.
fn matched_gen(ctx: &crate::engine::Ctx) -> Vec<Case> {
    let d1 = ScSpec::One;
    let dr = ScSpec::Rand(ctx.seed ^ 0x77);
    let mut lies: Vec<PayLie> = vec![
        PayLie::WrongNonce(ctx.seed ^ 1),
        PayLie::AmountOneSide(true),
        PayLie::AmountOneSide(false),
        PayLie::AmountOff(true, d1.clone()),
        PayLie::AmountOff(false, dr.clone()),
        PayLie::SignFlipped,
        PayLie::OldLockMismatch(d1.clone()),
        PayLie::OldLockMismatch(dr.clone()),
        PayLie::NewLockMismatch(dr.clone()),
        PayLie::CloseBalanceMismatch(true, d1.clone()),
        PayLie::CloseBalanceMismatch(false, dr.clone()),
        PayLie::TokenOtherKey,
        PayLie::TokenShifted(d1.clone()),
        PayLie::TokenForOtherState(true, d1.clone()),
        PayLie::TokenForOtherState(false, ScSpec::Small(1000)),
        PayLie::TokenOutsideSubgroup(true, d1.clone()),
    ];
    for k in 0..3 {
        lies.push(PayLie::Overdraw(k));
        lies.push(PayLie::MerchantOverdraw(k));
        lies.push(PayLie::ForeignCid(k, dr.clone()));
        lies.push(PayLie::TagReplaced(k, ctx.seed ^ k as u64));
    }
    let mut out = Vec::new();
    let amounts = [AmtSel::Small(3, true), AmtSel::Small(2, false), AmtSel::Zero, AmtSel::InRange(ctx.seed)];
    for (i, lie) in lies.iter().enumerate() {
        for alt in [false, true] {
            let Some(f) = natural_field(lie, alt) else { continue };
            if alt && natural_field(lie, false) == Some(f.clone()) {
                continue;
            }
            for (j, strategy) in [PayStrategy::TLast(f.clone(), i % 2 == 0), PayStrategy::CLast(f.clone(), i % 2 == 1)].into_iter().enumerate() {
                out.push(Case {
                    source: ((i + j) % 4) as u8,
                    amount: amounts[(i + j) % amounts.len()].clone(),
                    lie: lie.clone(),
                    strategy,
                    seed: ctx.seed.wrapping_mul(0x9e37_79b9).wrapping_add((i * 8 + j * 2 + alt as usize) as u64),
                });
            }
        }
    }
    out
}

pub fn checks() -> Vec<CheckDef> {
    vec![
        crate::engine::enum_check(
            "matched-forgeries",
            "enumerated: every kind of lie (wrong nonce, amount on one side / off / sign flipped, old / new lock mismatch, close-state balance, foreign or tampered or mismatching or absent token, overdraw variants 0-2 on either balance, foreign channel id in state / close / both, close tag replaced three ways) x the sub-proof the lie is about and its alternative x {scalar commitment, commitment} of that sub-proof chosen after the challenge (with / without re-chosen revealed scalars); same oracle as forged-pay; distinct by case",
            &[],
            false,
            matched_gen,
            oracle,
        ),
        crate::engine::enum_check(
            "forger-control",
            "deterministic controls: the forger's own no-lie plain payment on every pay-token source must be accepted by allow_payment; the closing signature must be valid exactly on (cid, CLOSE, new lock, cb - amount, mb + amount), complete_payment must accept the old state's pair with the prover's blinding factor, and the new pay token must be valid on the new state (reference pairing checks)",
            &["control/accepted"],
            false,
            control_gen,
            oracle,
        ),
        forged_check(),
    ]
}

fn forged_check() -> CheckDef {
    prop_check(
        "forged-pay",
        "generated attempts = (pay-token source: Ready state reached by an honest history of 0-2 payments on boundary / ordinary balances, in-range amount of either sign or 0 from the boundary-seeking selector, lie in {none, wrong nonce (double spend), amount on one balance only, amount off by delta, sign flipped, new customer / merchant balance -1 with the range constraint built for an in-range value, foreign channel id in state and/or close state, close tag replaced by a fresh nonce / 0 / random, old lock mismatch, new lock mismatch, token of another key, tampered token, valid token shown for a richer old state}, strategy in {plain, revealed scalars chosen after the challenge (both / one), scalar commitment or commitment of any sub-proof (token, lock, state, close, a digit proof) chosen after the challenge with the linear checks repaired, mutated atoms}); challenge read through the recorder hook on a draft; oracle: accepted => known openings satisfy the payment statement (token valid on an old message containing exactly the public nonce, balances moved by exactly the amount and in [0,2^63), cid carried over, one new lock, close tag, revocation commitment on the old lock); control: closing signature valid exactly on old -/+ amount, complete_payment accepts the old pair with the prover's factor, new token valid on the new state; distinct by (lie, strategy, amount sign, source)",
        &["strategy/revealed-scalars-chosen-after-challenge", "strategy/plain"],
        (352, 16_000),
        strategy,
        oracle,
    )
}
