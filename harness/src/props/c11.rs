//! C11 — Proof verifiers accept exactly the Schnorr and pairing relations.

use super::c08::{change_atom, replaceable, AtomChange};
use super::common::*;
use crate::engine::refmath::{pedersen, schnorr, sigproof, PkAtoms};
use crate::engine::rng::{Pattern, ScriptedRng, Window};
use crate::engine::wire::{self, Image};
use crate::engine::{pick_idx, prop_check, CheckDef, Fail, Rec, Tier, R};
use bls12_381::{G1Projective, G2Projective, Scalar};
use group::Group;
use proptest::prelude::*;
use serde::{Deserialize, Serialize};
use serde_json::json;
use zkchannels_crypto::{
    pedersen::PedersenParameters,
    pointcheval_sanders::{PublicKey, Signature},
    proofs::{
        Challenge, ChallengeBuilder, CommitmentProof, CommitmentProofBuilder, SignatureProof,
        SignatureProofBuilder, SignatureRequestProof, SignatureRequestProofBuilder,
    },
    Message,
};

#[derive(Clone, Copy, Debug, Serialize, Deserialize, Hash, PartialEq, Eq)]
pub enum PKind {
    ComG1,
    ComG2,
    Sig,
    Req,
}

#[derive(Clone, Debug, Serialize, Deserialize, Hash, PartialEq, Eq)]
pub enum ParamVar {
    Own,
    /// one element of the parameter set / key shifted by generator·delta
    Changed(u16, ScSpec),
    Fresh,
}

#[derive(Clone, Debug, Serialize, Deserialize, Hash, PartialEq, Eq)]
pub enum Scen {
    Honest,
    Atom(u16, AtomChange),
    OtherChallenge(u64),
    Params(ParamVar),
    /// simulated transcript: random responses, T := Com(z) - c*C; `known` = C has a known opening
    Simulated { known: bool, zseed: u64, cseed: u64, check_other: bool },
    /// relation-satisfying transcripts with a degenerate element — the verifier accepts *exactly* the
    /// relation, so these must be accepted: shape 0 — T is the identity (responses = c·opening of C);
    /// shape 1 — C is the identity (opening all zero; T = Com(z)); shape 2 — all responses zero
    /// (T = −c·C); shape 3 — T and C both the identity, all responses zero; shape 4 — exactly one
    /// message response is zero, the others random (T = Com(z) − c·C); shape 5 — only the blinding
    /// factor's response is zero. Signature proofs keep
    /// their honest (σ', C) for the pairing link and use shapes 0 (with the library's own prover under
    /// an all-zero commitment-scalar stream) and 2.
    DegenerateValid { shape: u8, oseed: u64, cseed: u64 },
    /// signature proofs on degenerate signatures (Sig kind only; other kinds fall back to Honest)
    Degenerate(u8),
    /// several fields moved together so that the individual discrepancies compensate:
    /// which 0 — signature proofs: the Schnorr discrepancy D = δ·B (B ∈ {g~, X~, Y~ᵢ}) is put into T
    ///           and the matching pairing discrepancy e(σ1', ±D) into σ2' — neither relation holds;
    ///           other kinds: zᵢ += δ with T ± δ·gᵢ;
    /// which 1 — C += D, T -= c·D (Schnorr kept) and σ2' += ±δ·b·σ1' (pairing kept for +);
    ///           other kinds: C += δ·gᵢ with zᵢ ± c·δ;
    /// which 2 — signature proofs: assembled from the public key alone: σ2 = t·σ1,
    ///           D = t·g~ − X~ − C, T = Com(z) − c·C ∓ D.
    Compensated { which: u8, base: u16, d: ScSpec, neg: bool },
}

#[derive(Clone, Debug, Serialize, Deserialize)]
pub struct Case {
    kind: PKind,
    n_idx: u8,
    key: u8,
    msg: Vec<ScSpec>,
    seed: u64,
    scen: Scen,
}

fn strategy(_t: Tier) -> impl Strategy<Value = Case> {
    let kind = prop_oneof![
        Just(PKind::ComG1),
        Just(PKind::ComG2),
        Just(PKind::Sig),
        Just(PKind::Sig),
        Just(PKind::Req)
    ];
    let chg = prop_oneof![
        3 => delta_spec().prop_map(AtomChange::Shift),
        2 => any::<u64>().prop_map(AtomChange::Random),
        1 => Just(AtomChange::Zero),
        1 => Just(AtomChange::Neighbour),
        1 => Just(AtomChange::SmallOrder),
        2 => Just(AtomChange::Negate),
    ];
    let pv = prop_oneof![
        3 => (any::<u16>(), delta_spec()).prop_map(|(i, d)| ParamVar::Changed(i, d)),
        1 => Just(ParamVar::Fresh),
    ];
    let scen = prop_oneof![
        1 => Just(Scen::Honest),
        6 => (any::<u16>(), chg).prop_map(|(i, c)| Scen::Atom(i, c)),
        1 => any::<u64>().prop_map(Scen::OtherChallenge),
        2 => pv.prop_map(Scen::Params),
        3 => (any::<bool>(), any::<u64>(), any::<u64>(), any::<bool>())
            .prop_map(|(known, zseed, cseed, check_other)| Scen::Simulated { known, zseed, cseed, check_other }),
        2 => (0u8..4).prop_map(Scen::Degenerate),
        3 => (0u8..6, any::<u64>(), any::<u64>()).prop_map(|(shape, oseed, cseed)| Scen::DegenerateValid { shape, oseed, cseed }),
        4 => (0u8..3, any::<u16>(), delta_spec(), any::<bool>())
            .prop_map(|(which, base, d, neg)| Scen::Compensated { which, base, d, neg }),
    ];
    (kind, 0u8..6, 0u8..3, msg_specs(), any::<u64>(), scen).prop_map(|(kind, n_idx, key, msg, seed, scen)| Case {
        kind,
        n_idx,
        key,
        msg,
        seed,
        scen,
    })
}

pub fn challenge_from_seed(s: u64) -> Challenge {
    ChallengeBuilder::new().with_bytes(b"zkverif-challenge").with_bytes(s.to_le_bytes()).finish()
}

/// Parameters in the two views the check needs: the library value and the reference atoms.
struct Params<const N: usize> {
    ped1: Option<PedersenParameters<G1Projective, N>>,
    ped2: Option<PedersenParameters<G2Projective, N>>,
    pk: Option<PublicKey<N>>,
    // reference view
    h1: G1Projective,
    g1s: Vec<G1Projective>,
    h2: G2Projective,
    g2s: Vec<G2Projective>,
    pka: Option<PkAtoms>,
}

fn params_for<const N: usize>(kind: PKind, key: u64, var: &ParamVar) -> Option<Params<N>> {
    let key = if matches!(var, ParamVar::Fresh) { key + 101 } else { key };
    match kind {
        PKind::ComG1 | PKind::ComG2 => {
            let mut p1 = PedersenParameters::<G1Projective, N>::new(&mut rng(0x5000 + key));
            let mut p2 = PedersenParameters::<G2Projective, N>::new(&mut rng(0x6000 + key));
            if let ParamVar::Changed(sel, d) = var {
                // rebuild through from_generators with one generator shifted
                let i1 = Image::must(&p1);
                let mut h: G1Projective = G1Projective::from_atom(i1.get("h"))?;
                let mut gs: Vec<G1Projective> = i1.g1s("gs").iter().map(|g| g.into()).collect();
                let i = pick_idx(*sel, N + 1);
                if i == 0 {
                    h += G1Projective::generator() * nonzero(d);
                } else {
                    gs[i - 1] += G1Projective::generator() * nonzero(d);
                }
                let mut arr = [G1Projective::identity(); N];
                arr.copy_from_slice(&gs);
                p1 = PedersenParameters::from_generators(h, arr);
                let i2 = Image::must(&p2);
                let mut h: G2Projective = G2Projective::from_atom(i2.get("h"))?;
                let mut gs: Vec<G2Projective> = i2.g2s("gs").iter().map(|g| g.into()).collect();
                if i == 0 {
                    h += G2Projective::generator() * nonzero(d);
                } else {
                    gs[i - 1] += G2Projective::generator() * nonzero(d);
                }
                let mut arr = [G2Projective::identity(); N];
                arr.copy_from_slice(&gs);
                p2 = PedersenParameters::from_generators(h, arr);
            }
            let i1 = Image::must(&p1);
            let i2 = Image::must(&p2);
            Some(Params {
                h1: G1Projective::from_atom(i1.get("h"))?,
                g1s: i1.g1s("gs").iter().map(|g| g.into()).collect(),
                h2: G2Projective::from_atom(i2.get("h"))?,
                g2s: i2.g2s("gs").iter().map(|g| g.into()).collect(),
                ped1: Some(p1),
                ped2: Some(p2),
                pk: None,
                pka: None,
            })
        }
        PKind::Sig | PKind::Req => {
            let k = keys::<N>(key);
            let mut pk = k.kp.public_key().clone();
            if let ParamVar::Changed(sel, d) = var {
                let img = Image::must(&pk);
                let idxs = replaceable(&img);
                let i = idxs[pick_idx(*sel, idxs.len())];
                let bytes = change_atom(&img, i, &AtomChange::Shift(d.clone()))?;
                pk = wire::dec::<PublicKey<N>>(&bytes).ok()?;
            }
            let pka = PkAtoms::of(&pk);
            let (h1, g1s) = pka.g1_params();
            let (h2, g2s) = pka.g2_params();
            Some(Params {
                ped1: None,
                ped2: None,
                pk: Some(pk),
                h1,
                g1s,
                h2,
                g2s,
                pka: Some(pka),
            })
        }
    }
}

fn prefix(kind: PKind) -> &'static str {
    match kind {
        PKind::ComG1 | PKind::ComG2 => "",
        PKind::Sig | PKind::Req => "commitment_proof.",
    }
}

/// Library verdict on an encoded proof (None = the decoder refused it).
fn lib_verify<const N: usize>(kind: PKind, bytes: &[u8], ch: Challenge, p: &Params<N>) -> Option<bool> {
    match kind {
        PKind::ComG1 => wire::dec::<CommitmentProof<G1Projective, N>>(bytes)
            .ok()
            .map(|pr| pr.verify_knowledge_of_opening(p.ped1.as_ref().unwrap(), ch)),
        PKind::ComG2 => wire::dec::<CommitmentProof<G2Projective, N>>(bytes)
            .ok()
            .map(|pr| pr.verify_knowledge_of_opening(p.ped2.as_ref().unwrap(), ch)),
        PKind::Req => wire::dec::<SignatureRequestProof<N>>(bytes)
            .ok()
            .map(|pr| pr.verify_knowledge_of_opening(p.pk.as_ref().unwrap(), ch).is_some()),
        PKind::Sig => wire::dec::<SignatureProof<N>>(bytes)
            .ok()
            .map(|pr| pr.verify_knowledge_of_signature(p.pk.as_ref().unwrap(), ch)),
    }
}

/// Reference verdict from the wire atoms (None = some atom is not a valid encoding).
fn ref_verify<const N: usize>(kind: PKind, template: &Image, bytes: &[u8], c: &Scalar, p: &Params<N>) -> Option<bool> {
    let img = Image { bytes: bytes.to_vec(), atoms: template.atoms.clone() };
    let pre = prefix(kind);
    let zbf = wire::sc(img.get(&format!("{}blinding_factor_response_scalar", pre)))?;
    let mut z = Vec::new();
    for i in img.list(&format!("{}message_response_scalars", pre)) {
        z.push(wire::sc(img.at(i))?);
    }
    let cb = img.get(&format!("{}commitment", pre));
    let tb = img.get(&format!("{}scalar_commitment", pre));
    Some(match kind {
        PKind::ComG1 | PKind::Req => schnorr(
            &p.h1,
            &p.g1s,
            &G1Projective::from_atom(cb)?,
            &G1Projective::from_atom(tb)?,
            &zbf,
            &z,
            c,
        ),
        PKind::ComG2 => schnorr(
            &p.h2,
            &p.g2s,
            &G2Projective::from_atom(cb)?,
            &G2Projective::from_atom(tb)?,
            &zbf,
            &z,
            c,
        ),
        PKind::Sig => {
            let s1 = wire::g1(img.get("blinded_signature.sigma1"))?;
            let s2 = wire::g1(img.get("blinded_signature.sigma2"))?;
            sigproof(p.pka.as_ref().unwrap(), &s1, &s2, &wire::g2(cb)?, &wire::g2(tb)?, &zbf, &z, c)
        }
    })
}

fn honest<const N: usize>(kind: PKind, c: &Case, p: &Params<N>, r: &mut rand_chacha::ChaCha20Rng) -> (Image, Challenge) {
    let m = scalars::<N>(&c.msg);
    match kind {
        PKind::ComG1 => {
            let b = CommitmentProofBuilder::generate_proof_commitments(r, Message::new(m), &[None; N], p.ped1.as_ref().unwrap());
            let ch = ChallengeBuilder::new().with(&b).finish();
            (Image::must(&b.generate_proof_response(ch)), ch)
        }
        PKind::ComG2 => {
            let b = CommitmentProofBuilder::generate_proof_commitments(r, Message::new(m), &[None; N], p.ped2.as_ref().unwrap());
            let ch = ChallengeBuilder::new().with(&b).finish();
            (Image::must(&b.generate_proof_response(ch)), ch)
        }
        PKind::Req => {
            let b = SignatureRequestProofBuilder::<N>::generate_proof_commitments(r, Message::new(m), &[None; N], p.pk.as_ref().unwrap());
            let ch = ChallengeBuilder::new().with(&b).finish();
            (Image::must(&b.generate_proof_response(ch)), ch)
        }
        PKind::Sig => {
            let k = keys::<N>(c.key as u64);
            let sig = Message::new(m).sign(r, &k.kp);
            let b = SignatureProofBuilder::<N>::generate_proof_commitments(r, Message::new(m), sig, &[None; N], p.pk.as_ref().unwrap());
            let ch = ChallengeBuilder::new().with(&b).finish();
            (Image::must(&b.generate_proof_response(ch)), ch)
        }
    }
}

fn compare(rec: &Rec, what: &str, lib: Option<bool>, reference: Option<bool>, expect: Option<bool>, n: usize, kind: PKind) -> R {
    rec.eval(1);
    let lib_acc = lib.unwrap_or(false);
    let ref_acc = reference.unwrap_or(false);
    if let Some(e) = expect {
        ensure!(
            ref_acc == e,
            if what == "honest" { format!("C11/{:?}/honest-proof-does-not-satisfy-relation", kind) } else { "harness/reference-disagrees-with-construction".to_string() },
            "{}: reference relation says {}, construction expects {} ({:?} N={})",
            what,
            ref_acc,
            e,
            kind,
            n
        );
    }
    if lib_acc != ref_acc {
        return Err(Fail::new(
            if ref_acc { format!("C11/{:?}/valid-proof-rejected", kind) } else { format!("C11/{:?}/invalid-proof-accepted", kind) },
            format!("{}: verifier returned {:?}, relation on the wire atoms evaluates to {:?} ({:?} N={})", what, lib, reference, kind, n),
        )
        .obs(format!("{:?}", lib), format!("{:?}", reference)));
    }
    rec.class(&format!(
        "{:?}/{}/{}",
        kind,
        what,
        if lib.is_none() { "decode-rejected" } else if ref_acc { "accept" } else { "reject" }
    ));
    Ok(())
}

fn run<const N: usize>(c: &Case, rec: &Rec) -> R {
    let kind = c.kind;
    let own = params_for::<N>(kind, c.key as u64, &ParamVar::Own).expect("own params");
    let mut r = rng(c.seed);
    let (img, ch) = honest::<N>(kind, c, &own, &mut r);
    let cs = ch.to_scalar();
    // honest proof: always checked
    compare(rec, "honest", lib_verify(kind, &img.bytes, ch, &own), ref_verify(kind, &img, &img.bytes, &cs, &own), Some(true), N, kind)?;

    let mut fp = String::new();
    match &c.scen {
        Scen::Honest => {}
        Scen::Atom(sel, chg) => {
            let idxs = replaceable(&img);
            let i = idxs[pick_idx(*sel, idxs.len())];
            if let Some(bytes) = change_atom(&img, i, chg) {
                let what = format!("atom/{}", img.atoms[i].field);
                let known = ["commitment", "scalar_commitment", "blinding_factor_response_scalar", "message_response_scalars", "sigma1", "sigma2"];
                if !known.contains(&img.atoms[i].field.as_str()) {
                    // a field the relations do not mention (a proof type carrying more than the
                    // relation's atoms): the property still says that changing any single field of
                    // an accepted proof makes it reject
                    rec.eval(1);
                    let lib = lib_verify(kind, &bytes, ch, &own);
                    if lib == Some(true) {
                        return Err(Fail::new(
                            format!("C11/{:?}/single-field-change-accepted", kind),
                            format!("proof still accepted after replacing its field '{}' ({:?} N={})", img.atoms[i].path, kind, N),
                        )
                        .obs("accepted", "rejected"));
                    }
                    rec.class(&format!("{:?}/atom-outside-the-relations/reject", kind));
                    rec.nontrivial((format!("{:?}", kind), N, c.key, format!("{}:{:?}", img.atoms[i].path, chg)));
                    return Ok(());
                }
                compare(rec, &what, lib_verify(kind, &bytes, ch, &own), ref_verify(kind, &img, &bytes, &cs, &own), Some(false), N, kind)?;
                fp = format!("{}:{:?}", img.atoms[i].path, chg);
            }
        }
        Scen::OtherChallenge(s) => {
            let ch2 = challenge_from_seed(*s);
            compare(rec, "other-challenge", lib_verify(kind, &img.bytes, ch2, &own), ref_verify(kind, &img, &img.bytes, &ch2.to_scalar(), &own), Some(false), N, kind)?;
            fp = "other-challenge".into();
        }
        Scen::Params(var) => {
            if let Some(p2) = params_for::<N>(kind, c.key as u64, var) {
                // no expectation by construction: some key elements are irrelevant to some proof kinds
                compare(rec, "other-params", lib_verify(kind, &img.bytes, ch, &p2), ref_verify(kind, &img, &img.bytes, &cs, &p2), None, N, kind)?;
                fp = format!("{:?}", var);
            }
        }
        Scen::Simulated { known, zseed, cseed, check_other } => {
            let pre = prefix(kind);
            let mut sim = img.clone();
            let csim = challenge_from_seed(*cseed);
            let zbf = rand_scalar(zseed ^ 0xbf);
            let z: Vec<Scalar> = (0..N as u64).map(|i| rand_scalar(zseed.wrapping_add(i))).collect();
            sim.set(&format!("{}blinding_factor_response_scalar", pre), &zbf.to_bytes());
            for (j, i) in img.list(&format!("{}message_response_scalars", pre)).into_iter().enumerate() {
                sim.set_at(i, &z[j].to_bytes());
            }
            let cpath = format!("{}commitment", pre);
            let tpath = format!("{}scalar_commitment", pre);
            match kind {
                PKind::ComG1 | PKind::Req => {
                    let cp = if *known { G1Projective::from_atom(img.get(&cpath)).unwrap() } else { G1Projective::generator() * rand_nonzero_scalar(zseed ^ 0xc0) };
                    let t = pedersen(&own.h1, &own.g1s, &z, &zbf) - cp * csim.to_scalar();
                    sim.set(&cpath, &cp.to_atom());
                    sim.set(&tpath, &t.to_atom());
                }
                PKind::ComG2 | PKind::Sig => {
                    // for Sig the pairing link needs the honest (sigma', C): C is kept
                    let cp = if *known || kind == PKind::Sig { G2Projective::from_atom(img.get(&cpath)).unwrap() } else { G2Projective::generator() * rand_nonzero_scalar(zseed ^ 0xc0) };
                    let t = pedersen(&own.h2, &own.g2s, &z, &zbf) - cp * csim.to_scalar();
                    sim.set(&cpath, &cp.to_atom());
                    sim.set(&tpath, &t.to_atom());
                }
            }
            // under the challenge it was simulated for, the relation holds and must be accepted
            compare(rec, "simulated/same-challenge", lib_verify(kind, &sim.bytes, csim, &own), ref_verify(kind, &img, &sim.bytes, &csim.to_scalar(), &own), Some(true), N, kind)?;
            // under any other challenge it must be refused
            let other = if *check_other { ch } else { challenge_from_seed(cseed.wrapping_add(1)) };
            compare(rec, "simulated/other-challenge", lib_verify(kind, &sim.bytes, other, &own), ref_verify(kind, &img, &sim.bytes, &other.to_scalar(), &own), Some(false), N, kind)?;
            fp = format!("sim:{}:{}", known, zseed);
        }
        Scen::DegenerateValid { shape, oseed, cseed } => {
            let pre = prefix(kind);
            let mut sim = img.clone();
            let csim = challenge_from_seed(*cseed);
            let cs = csim.to_scalar();
            let cpath = format!("{}commitment", pre);
            let tpath = format!("{}scalar_commitment", pre);
            let zpath = format!("{}blinding_factor_response_scalar", pre);
            let zidx = img.list(&format!("{}message_response_scalars", pre));
            // a fresh opening (m', r') of a fresh commitment C' (not available for signature proofs,
            // whose C is tied to the blinded signature by the pairing equation)
            let r0 = rand_scalar(oseed ^ 0x0bf);
            let m0: Vec<Scalar> = (0..N).map(|i| c.msg[i].get() + rand_scalar(oseed.wrapping_add(i as u64 + 1)) * Scalar::from((oseed & 1) as u64)).collect();
            let zero = Scalar::zero();
            let mut shape = *shape % 6;
            if kind == PKind::Sig && (shape == 1 || shape == 3) {
                shape = 2;
            }
            if kind == PKind::Sig && shape == 0 {
                // T = identity needs the opening of the honest C, which only the library's prover has:
                // run it with every commitment scalar fixed to zero and an all-zero stream for the
                // blinding factor's commitment scalar (drawn after the signature blinding)
                let k = keys::<N>(c.key as u64);
                let pk = own.pk.as_ref().unwrap();
                let m = scalars::<N>(&c.msg);
                let sig = Message::new(m).sign(&mut rng(c.seed ^ 0x51), &k.kp);
                let mut found = None;
                {
                    // pass 1: record the draws; then zero each 64-byte draw in turn (last first) until T is the identity
                    let mut probe = ScriptedRng::new(c.seed ^ 0x52, vec![]);
                    let _ = SignatureProofBuilder::<N>::generate_proof_commitments(&mut probe, Message::new(m), sig, &[Some(zero); N], pk);
                    let draws: Vec<(usize, usize)> = probe.log.iter().filter(|d| d.1 == 64).cloned().collect();
                    for d in draws.iter().rev() {
                        let mut zr = ScriptedRng::new(c.seed ^ 0x52, vec![Window { off: d.0, len: d.1, pat: Pattern::Zero }]);
                        let b = SignatureProofBuilder::<N>::generate_proof_commitments(&mut zr, Message::new(m), sig, &[Some(zero); N], pk);
                        let ch2 = ChallengeBuilder::new().with(&b).finish();
                        let pr = b.generate_proof_response(ch2);
                        let pi = Image::must(&pr);
                        let t_is_identity = G2Projective::from_atom(pi.get(&tpath)).map(|t| bool::from(t.is_identity())).unwrap_or(false);
                        let s1_ok = G1Projective::from_atom(pi.get("blinded_signature.sigma1")).map(|t| !bool::from(t.is_identity())).unwrap_or(false);
                        if t_is_identity && s1_ok {
                            found = Some((pi, ch2));
                            break;
                        }
                    }
                }
                match found {
                    Some((pi, ch2)) => {
                        compare(rec, "degenerate-valid/T-identity(prover)", lib_verify(kind, &pi.bytes, ch2, &own), ref_verify(kind, &img, &pi.bytes, &ch2.to_scalar(), &own), Some(true), N, kind)?;
                    }
                    None => rec.class("Sig/degenerate-valid/T-identity(prover)/not-reached"),
                }
                fp = format!("degv:sigT:{}", c.seed);
            } else {
                let (cm, rr): (Vec<Scalar>, Scalar) = match shape {
                    1 | 3 => (vec![zero; N], zero),
                    _ => (m0.clone(), r0),
                };
                // responses
                let (z, zbf): (Vec<Scalar>, Scalar) = match shape {
                    0 => (cm.iter().map(|m| *m * cs).collect(), rr * cs),
                    1 => ((0..N as u64).map(|i| rand_scalar(oseed ^ (0x77 + i))).collect(), rand_scalar(oseed ^ 0x76)),
                    4 => {
                        let j = (*oseed >> 8) as usize % N;
                        ((0..N).map(|i| if i == j { zero } else { rand_nonzero_scalar(oseed ^ (0x77 + i as u64)) }).collect(), rand_nonzero_scalar(oseed ^ 0x76))
                    }
                    5 => ((0..N as u64).map(|i| rand_nonzero_scalar(oseed ^ (0x77 + i))).collect(), zero),
                    _ => (vec![zero; N], zero),
                };
                sim.set(&zpath, &zbf.to_bytes());
                for (j, i) in zidx.iter().enumerate() {
                    sim.set_at(*i, &z[j].to_bytes());
                }
                match kind {
                    PKind::ComG1 | PKind::Req => {
                        let cp = pedersen(&own.h1, &own.g1s, &cm, &rr);
                        let t = pedersen(&own.h1, &own.g1s, &z, &zbf) - cp * cs;
                        sim.set(&cpath, &cp.to_atom());
                        sim.set(&tpath, &t.to_atom());
                    }
                    PKind::ComG2 => {
                        let cp = pedersen(&own.h2, &own.g2s, &cm, &rr);
                        let t = pedersen(&own.h2, &own.g2s, &z, &zbf) - cp * cs;
                        sim.set(&cpath, &cp.to_atom());
                        sim.set(&tpath, &t.to_atom());
                    }
                    PKind::Sig => {
                        // shapes 2, 4, 5: honest C kept, T = Com(z) - c*C
                        let cp = G2Projective::from_atom(img.get(&cpath)).unwrap();
                        let t = pedersen(&own.h2, &own.g2s, &z, &zbf) - cp * cs;
                        sim.set(&tpath, &t.to_atom());
                    }
                }
                let what = ["degenerate-valid/T-identity", "degenerate-valid/C-identity", "degenerate-valid/zero-responses", "degenerate-valid/all-identity", "degenerate-valid/one-zero-response", "degenerate-valid/zero-bf-response"][shape as usize];
                let lib = lib_verify(kind, &sim.bytes, csim, &own);
                if lib.is_none() {
                    // the codec refuses this element in this position: nothing to verify (C15's business)
                    rec.class(&format!("{:?}/{}/undecodable", kind, what));
                } else {
                    compare(rec, what, lib, ref_verify(kind, &img, &sim.bytes, &cs, &own), Some(true), N, kind)?;
                    // and never under another challenge, unless the transcript is challenge-independent
                    // (C and T both the identity with zero responses satisfies the relation for every c)
                    if shape != 3 {
                        let other = challenge_from_seed(cseed.wrapping_add(1));
                        compare(rec, &format!("{}/other-challenge", what), lib_verify(kind, &sim.bytes, other, &own), ref_verify(kind, &img, &sim.bytes, &other.to_scalar(), &own), None, N, kind)?;
                    }
                }
                fp = format!("degv:{}:{}", shape, oseed);
            }
        }
        Scen::Compensated { which, base, d, neg } => {
            let pre = prefix(kind);
            let delta = nonzero(d);
            let kappa = if *neg { -Scalar::one() } else { Scalar::one() };
            let cpath = format!("{}commitment", pre);
            let tpath = format!("{}scalar_commitment", pre);
            let zidx = img.list(&format!("{}message_response_scalars", pre));
            let mut alt = img.clone();
            let what: &str;
            let expect: bool;
            if kind == PKind::Sig {
                let k = keys::<N>(c.key as u64);
                let g2t = G2Projective::from(k.pk.g2);
                let x2 = G2Projective::from(k.pk.x2);
                let bi = pick_idx(*base, N + 2);
                let (bpt, blog) = match bi {
                    0 => (g2t, Scalar::one()),
                    1 => (x2, k.sk.x),
                    i => (G2Projective::from(k.pk.y2s[i - 2]), k.sk.ys[i - 2]),
                };
                ensure!(g2t * blog == bpt, "harness/key-atoms-inconsistent", "public key element {} is not g~ to the secret exponent", bi);
                let dd = bpt * delta;
                let s1 = G1Projective::from_atom(img.get("blinded_signature.sigma1")).expect("sigma1");
                let s2 = G1Projective::from_atom(img.get("blinded_signature.sigma2")).expect("sigma2");
                let cc = G2Projective::from_atom(img.get(&cpath)).expect("C");
                let tt = G2Projective::from_atom(img.get(&tpath)).expect("T");
                match which % 3 {
                    0 => {
                        // Com(z) - (T' + cC) = D, and e(s1, X~ + C ± D) = e(s2', g~): neither relation holds
                        alt.set(&tpath, &(tt - dd).to_atom());
                        alt.set("blinded_signature.sigma2", &(s2 + s1 * (kappa * delta * blog)).to_atom());
                        what = "compensated/schnorr-and-pairing-off";
                        expect = false;
                    }
                    1 => {
                        alt.set(&cpath, &(cc + dd).to_atom());
                        alt.set(&tpath, &(tt - dd * cs).to_atom());
                        alt.set("blinded_signature.sigma2", &(s2 + s1 * (kappa * delta * blog)).to_atom());
                        what = if *neg { "compensated/schnorr-kept-pairing-off" } else { "compensated/both-kept" };
                        expect = !*neg;
                    }
                    _ => {
                        let s1f = G1Projective::generator() * rand_nonzero_scalar(c.seed ^ 0x51);
                        let t = rand_nonzero_scalar(c.seed ^ 0x52);
                        let m = scalars::<N>(&c.msg);
                        let bfv = rand_scalar(c.seed ^ 0x53);
                        let cf = pedersen(&own.h2, &own.g2s, &m, &bfv);
                        let dsc = g2t * t - x2 - cf;
                        let zbf = rand_scalar(c.seed ^ 0x54);
                        let z: Vec<Scalar> = (0..N as u64).map(|i| rand_scalar((c.seed ^ 0x55).wrapping_add(i))).collect();
                        let tf = pedersen(&own.h2, &own.g2s, &z, &zbf) - cf * cs - dsc * kappa;
                        alt.set("blinded_signature.sigma1", &s1f.to_atom());
                        alt.set("blinded_signature.sigma2", &(s1f * t).to_atom());
                        alt.set(&cpath, &cf.to_atom());
                        alt.set(&tpath, &tf.to_atom());
                        alt.set(&format!("{}blinding_factor_response_scalar", pre), &zbf.to_bytes());
                        for (j, i) in zidx.iter().enumerate() {
                            alt.set_at(*i, &z[j].to_bytes());
                        }
                        what = "compensated/assembled-from-public-key";
                        expect = false;
                    }
                }
            } else {
                let i = pick_idx(*base, N);
                let zi = wire::sc(img.at(zidx[i])).expect("z_i");
                let shift = |path: &str, alt: &mut Image, k: Scalar| match kind {
                    PKind::ComG2 => {
                        let p = G2Projective::from_atom(img.get(path)).expect("point");
                        alt.set(path, &(p + own.g2s[i] * k).to_atom());
                    }
                    _ => {
                        let p = G1Projective::from_atom(img.get(path)).expect("point");
                        alt.set(path, &(p + own.g1s[i] * k).to_atom());
                    }
                };
                if which % 2 == 0 {
                    alt.set_at(zidx[i], &(zi + delta).to_bytes());
                    shift(&tpath, &mut alt, kappa * delta);
                    what = if *neg { "compensated/response-and-T-opposite" } else { "compensated/response-and-T-together" };
                } else {
                    shift(&cpath, &mut alt, delta);
                    alt.set_at(zidx[i], &(zi + kappa * cs * delta).to_bytes());
                    what = if *neg { "compensated/response-and-C-opposite" } else { "compensated/response-and-C-together" };
                }
                expect = !*neg;
            }
            compare(rec, what, lib_verify(kind, &alt.bytes, ch, &own), ref_verify(kind, &img, &alt.bytes, &cs, &own), Some(expect), N, kind)?;
            fp = format!("{}:{}:{:?}", what, base, d);
        }
        Scen::Degenerate(which) => {
            if kind == PKind::Sig {
                let k = keys::<N>(c.key as u64);
                let pk = own.pk.as_ref().unwrap();
                let m = scalars::<N>(&c.msg);
                let good = Message::new(m).sign(&mut r, &k.kp);
                let zero_first = vec![Window { off: 0, len: 64, pat: Pattern::Zero }];
                let (what, proof): (&str, SignatureProof<N>) = match which % 4 {
                    0 => {
                        // all-identity signature obtained through randomize(r = 0), then proven
                        let mut s = good;
                        let mut z = ScriptedRng::new(c.seed, zero_first);
                        s.randomize(&mut z);
                        let b = SignatureProofBuilder::<N>::generate_proof_commitments(&mut r, Message::new(m), s, &[None; N], pk);
                        let chd = ChallengeBuilder::new().with(&b).finish();
                        let p = b.generate_proof_response(chd);
                        ("degenerate/identity-signature", p)
                    }
                    1 => {
                        // valid signature, but the proof's own re-randomizer is 0: blinded signature all-identity,
                        // the pairing link then holds trivially
                        // pass 1 records the draw map; the re-randomizer is the last scalar draw
                        let mut probe = ScriptedRng::new(c.seed, vec![]);
                        let _ = SignatureProofBuilder::<N>::generate_proof_commitments(&mut probe, Message::new(m), good, &[None; N], pk);
                        let (off, len) = *probe.log.last().expect("draws");
                        let mut z = ScriptedRng::new(c.seed, vec![Window { off, len, pat: Pattern::Zero }]);
                        let b = SignatureProofBuilder::<N>::generate_proof_commitments(&mut z, Message::new(m), good, &[None; N], pk);
                        ensure!(z.covered >= 1, "harness/zero-window-missed", "zero window did not cover the re-randomizer draw of the signature proof");
                        let chd = ChallengeBuilder::new().with(&b).finish();
                        ("degenerate/blinded-signature-identity", b.generate_proof_response(chd))
                    }
                    2 => {
                        // (sigma1, identity)
                        let s = super::c07::sig_from(&good.sigma1(), &bls12_381::G1Affine::identity()).unwrap();
                        let b = SignatureProofBuilder::<N>::generate_proof_commitments(&mut r, Message::new(m), s, &[None; N], pk);
                        let chd = ChallengeBuilder::new().with(&b).finish();
                        ("degenerate/sigma2-identity", b.generate_proof_response(chd))
                    }
                    _ => {
                        // signature on another message, proven for m
                        let mut m2 = m;
                        m2[0] += Scalar::one();
                        let s: Signature = Message::new(m2).sign(&mut r, &k.kp);
                        let b = SignatureProofBuilder::<N>::generate_proof_commitments(&mut r, Message::new(m), s, &[None; N], pk);
                        let chd = ChallengeBuilder::new().with(&b).finish();
                        ("degenerate/signature-on-other-message", b.generate_proof_response(chd))
                    }
                };
                let chd = ChallengeBuilder::new().with(&proof).finish();
                // in memory
                let lib_mem = proof.verify_knowledge_of_signature(pk, chd);
                let pimg = Image::must(&proof);
                let reference = ref_verify(kind, &pimg, &pimg.bytes, &chd.to_scalar(), &own);
                compare(rec, what, Some(lib_mem), reference, Some(false), N, kind)?;
                // after a round trip (the decoder may refuse it, which is non-acceptance)
                compare(rec, &format!("{}/round-trip", what), lib_verify(kind, &pimg.bytes, chd, &own), reference, Some(false), N, kind)?;
                fp = what.to_string();
            }
        }
    }
    if !fp.is_empty() {
        rec.nontrivial((format!("{:?}", kind), N, c.key, fp.clone()));
    }
    rec.sample(&format!("{:?}/{}", kind, fp.split(':').next().unwrap_or("")), || {
        json!({"kind": format!("{:?}", kind), "N": N, "scenario": format!("{:?}", c.scen), "message": c.msg[..N].iter().map(|s| s.label()).collect::<Vec<_>>()})
    });
    Ok(())
}

fn oracle(c: &Case, rec: &Rec) -> R {
    with_n!(n_of(c.n_idx), run(c, rec))
}

pub fn checks() -> Vec<CheckDef> {
    vec![prop_check(
        "verifier-relations",
        "cases = (proof type in {CommitmentProof<G1>, CommitmentProof<G2>, SignatureProof, SignatureRequestProof}, N, key/parameters, message, scenario in {honest, one wire atom replaced (shift/random/identity-or-zero/neighbour), challenge from another transcript, one parameter or key element changed / fresh parameters, simulated transcript (random responses, T := Com(z) - c*C, with and without known opening) under the same and under another challenge, signature proofs on degenerate signatures: all-identity via r=0, blinded signature all-identity via the proof's own re-randomizer = 0, (s1,identity), signature on another message - in memory and after a round trip, several fields moved together so that discrepancies compensate: Schnorr discrepancy D=delta*B (B in g~, X~, Y~_i) in T with the matching pairing discrepancy +-D in sigma2' (neither relation holds), C+=D with T-=cD and sigma2' adjusted (both kept / pairing off), a signature proof assembled from the public key alone (sigma2=t*sigma1, D=t*g~-X~-C folded into T), response and T / response and C moved together or oppositely}); oracle = verifier verdict == independent Schnorr / pairing evaluation on the atoms of the encoded proof and parameters, for accept and reject classes, plus the verdict expected by construction; non-trivial = any non-honest scenario; distinct by (type, N, key, scenario detail)",
        &["Sig/degenerate/blinded-signature-identity/reject", "Sig/simulated/same-challenge/accept", "ComG1/simulated/other-challenge/reject", "Sig/compensated/schnorr-and-pairing-off/reject", "Sig/compensated/both-kept/accept", "Sig/compensated/assembled-from-public-key/reject"],
        (2400, 120_000),
        strategy,
        oracle,
    )]
}
