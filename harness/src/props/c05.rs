//! C05 — byte-level half: every revocation pair that can exist has lock = canonical SHA3(secret ‖ index).
//! (The protocol half — complete_payment iff the candidate opens the commitment — is in `chist.rs`.)

use super::common::*;
use crate::engine::refmath::{scalar_from_le_reduce, sha3};
use crate::engine::wire::{self, Image, Q_LE};
use crate::engine::{prop_check, CheckDef, Fail, Rec, Tier, R};
use bls12_381::Scalar;
use proptest::prelude::*;
use serde::{Deserialize, Serialize};
use serde_json::json;
use zkabacus_crypto::revlock::RevocationPair;

#[derive(Clone, Debug, Serialize, Deserialize, Hash, PartialEq, Eq)]
pub enum Kind5 {
    Valid,
    LockShift(ScSpec),
    SecretShift(ScSpec),
    IndexShift(u8),
    /// (secret, index) whose digest is not a canonical scalar; lock := the digest bytes
    NonCanonicalDigestRaw,
    /// same, lock := digest mod q
    NonCanonicalDigestReduced,
    /// canonical-digest secret, but with another index whose digest is canonical: lock of the first
    LockOfOtherIndex,
    LockRandom(u64),
    SecretNonCanonical(u8),
    LockNonCanonical(u8),
    /// secret written as s + q (same scalar, non-canonical bytes) and *everything else made consistent
    /// with those raw bytes*: index = first one whose digest of the raw bytes is canonical, lock = that digest
    SecretPlusModulusConsistent,
    Random(Vec<u8>),
    Truncated(u8),
}

#[derive(Clone, Debug, Serialize, Deserialize)]
pub struct Case {
    seed: u64,
    kind: Kind5,
}

fn strategy(_t: Tier) -> impl Strategy<Value = Case> {
    let kind = prop_oneof![
        3 => Just(Kind5::Valid),
        2 => delta_spec().prop_map(Kind5::LockShift),
        2 => delta_spec().prop_map(Kind5::SecretShift),
        2 => (1u8..).prop_map(Kind5::IndexShift),
        2 => Just(Kind5::NonCanonicalDigestRaw),
        2 => Just(Kind5::NonCanonicalDigestReduced),
        1 => Just(Kind5::LockOfOtherIndex),
        1 => any::<u64>().prop_map(Kind5::LockRandom),
        1 => any::<u8>().prop_map(Kind5::SecretNonCanonical),
        1 => any::<u8>().prop_map(Kind5::LockNonCanonical),
        2 => Just(Kind5::SecretPlusModulusConsistent),
        2 => proptest::collection::vec(any::<u8>(), 65).prop_map(Kind5::Random),
        1 => (0u8..65).prop_map(Kind5::Truncated),
    ];
    (any::<u64>(), kind).prop_map(|(seed, kind)| Case { seed, kind })
}

fn digest(secret: &[u8], index: u8) -> [u8; 32] {
    sha3(&[secret, &[index]])
}

/// Reference acceptance for a 65-byte string lock ‖ secret ‖ index.
fn reference(b: &[u8]) -> bool {
    if b.len() < 65 {
        return false;
    }
    let (lock, secret, index) = (&b[..32], &b[32..64], b[64]);
    if wire::sc(lock).is_none() || wire::sc(secret).is_none() {
        return false;
    }
    let d = digest(secret, index);
    wire::sc(&d).is_some() && d == lock
}

fn non_canonical(add: u8) -> [u8; 32] {
    // q + add (no carry beyond the first limb for add < 255 because q's low byte is 0x01)
    let mut b = Q_LE;
    b[0] = b[0].wrapping_add(add % 200);
    b
}

fn oracle(c: &Case, rec: &Rec) -> R {
    // an honestly generated pair
    let pair = zkabacus_crypto::internal::test_new_revocation_pair(&mut rng(c.seed));
    let img = Image::must(&pair);
    ensure!(img.bytes.len() == 65, "harness/revocation-pair-layout", "revocation pair encodes to {} bytes", img.bytes.len());
    let lock = img.get("lock").to_vec();
    let secret = img.get("secret.secret").to_vec();
    let index = img.get("secret.index")[0];
    // generated pairs satisfy the invariant
    rec.eval(1);
    ensure!(
        reference(&img.bytes) && sha3(&[&pair.revocation_secret().as_bytes()]) == pair.revocation_lock().as_bytes(),
        "C05/generated-pair-violates-hash-invariant",
        "a freshly generated revocation pair does not satisfy lock = SHA3(secret || index)"
    );

    // find an index for this secret whose digest is not canonical / is canonical
    let find = |canonical: bool, not: Option<u8>| (0u8..=255).find(|i| Some(*i) != not && wire::sc(&digest(&secret, *i)).is_some() == canonical);

    let mut bytes = img.bytes.clone();
    let label: &str = match &c.kind {
        Kind5::Valid => "valid",
        Kind5::LockShift(d) => {
            bytes[..32].copy_from_slice(&(wire::sc(&lock).unwrap() + nonzero(d)).to_bytes());
            "lock-altered"
        }
        Kind5::SecretShift(d) => {
            bytes[32..64].copy_from_slice(&(wire::sc(&secret).unwrap() + nonzero(d)).to_bytes());
            "secret-altered"
        }
        Kind5::IndexShift(d) => {
            bytes[64] = index.wrapping_add(*d);
            "index-altered"
        }
        Kind5::NonCanonicalDigestRaw | Kind5::NonCanonicalDigestReduced => match find(false, None) {
            Some(i) => {
                let d = digest(&secret, i);
                bytes[64] = i;
                if matches!(c.kind, Kind5::NonCanonicalDigestRaw) {
                    bytes[..32].copy_from_slice(&d);
                    "digest-non-canonical/lock=digest"
                } else {
                    bytes[..32].copy_from_slice(&scalar_from_le_reduce(&d).to_bytes());
                    "digest-non-canonical/lock=digest-mod-q"
                }
            }
            None => "valid",
        },
        Kind5::LockOfOtherIndex => match find(true, Some(index)) {
            Some(i) => {
                bytes[64] = i;
                "index-altered"
            }
            None => "valid",
        },
        Kind5::LockRandom(s) => {
            bytes[..32].copy_from_slice(&rand_scalar(*s).to_bytes());
            "lock-random"
        }
        Kind5::SecretNonCanonical(a) => {
            bytes[32..64].copy_from_slice(&non_canonical(*a));
            "secret-non-canonical"
        }
        Kind5::LockNonCanonical(a) => {
            bytes[..32].copy_from_slice(&non_canonical(*a));
            "lock-non-canonical"
        }
        Kind5::SecretPlusModulusConsistent => {
            let mut raw = [0u8; 32];
            let mut carry = 0u16;
            for i in 0..32 {
                let v = secret[i] as u16 + Q_LE[i] as u16 + carry;
                raw[i] = v as u8;
                carry = v >> 8;
            }
            match (carry, (0u8..=255).find(|i| wire::sc(&digest(&raw, *i)).is_some())) {
                (0, Some(i)) => {
                    bytes[32..64].copy_from_slice(&raw);
                    bytes[64] = i;
                    bytes[..32].copy_from_slice(&digest(&raw, i));
                    "secret-plus-modulus/lock-and-index-consistent-with-raw-bytes"
                }
                _ => "valid",
            }
        }
        Kind5::Random(v) => {
            bytes = v.clone();
            "random-bytes"
        }
        Kind5::Truncated(n) => {
            bytes.truncate(*n as usize);
            "truncated"
        }
    };
    let expect = reference(&bytes);
    if label != "valid" && label != "random-bytes" {
        ensure!(!expect, "harness/reference-disagrees-with-construction", "reference accepts a {} pair", label);
    }
    let got = wire::dec::<RevocationPair>(&bytes);
    rec.eval(1);
    if got.is_ok() != expect {
        return Err(Fail::new(
            if expect { "C05/valid-pair-refused".to_string() } else { format!("C05/invalid-pair-decodes/{}", label) },
            format!("decoding a {} revocation pair returned ok={}, reference (canonical scalars, canonical SHA3 digest equal to the lock) says {}", label, got.is_ok(), expect),
        )
        .obs(got.is_ok().to_string(), expect.to_string()));
    }
    if let Ok(p) = got {
        // whatever decodes carries the preimage of its lock
        ensure!(
            sha3(&[&p.revocation_secret().as_bytes()]) == p.revocation_lock().as_bytes() && wire::sc(&p.revocation_lock().as_bytes()).is_some(),
            "C05/decoded-pair-violates-hash-invariant",
            "a decoded revocation pair has lock != SHA3(secret || index)"
        );
        ensure!(wire::enc(&p) == bytes[..65], "C05/pair-round-trip-differs", "decoded revocation pair re-encodes differently");
    }
    rec.class(&format!("{}/{}", label, if expect { "accept" } else { "reject" }));
    if label != "valid" {
        rec.nontrivial((label, c.seed, format!("{:?}", c.kind)));
    }
    rec.sample(label, || json!({"case": label, "bytes": crate::engine::hex(&bytes), "decodes": expect}));
    let _ = Scalar::zero();
    Ok(())
}

// ------------------------------------------------- digests next to the modulus (directed search)

#[derive(Clone, Debug, Serialize, Deserialize)]
pub struct BoundaryCase {
    seed: u64,
}

fn boundary_strategy(_t: Tier) -> impl Strategy<Value = BoundaryCase> {
    any::<u64>().prop_map(|seed| BoundaryCase { seed })
}

/// Hashes per case. A digest shares the modulus's most significant byte with probability 1/256;
/// about 7 % of those are >= q.
const HASHES_PER_CASE: u64 = 40_000;

fn decode_and_check(bytes: &[u8], expect: bool, label: &str, rec: &Rec) -> R {
    let got = wire::dec::<RevocationPair>(bytes);
    rec.eval(1);
    if got.is_ok() != expect {
        return Err(Fail::new(
            if expect { "C05/valid-pair-refused".to_string() } else { format!("C05/invalid-pair-decodes/{}", label) },
            format!("decoding a revocation pair whose SHA3 digest shares the modulus's top byte ({}) returned ok={}, reference says {}; bytes {}", label, got.is_ok(), expect, crate::engine::hex(bytes)),
        )
        .obs(got.is_ok().to_string(), expect.to_string()));
    }
    if let Ok(p) = got {
        ensure!(
            sha3(&[&p.revocation_secret().as_bytes()]) == p.revocation_lock().as_bytes() && wire::enc(&p) == bytes[..65],
            "C05/decoded-pair-violates-hash-invariant",
            "a decoded revocation pair has lock != SHA3(secret || index) or re-encodes differently"
        );
    }
    Ok(())
}

fn boundary_oracle(c: &BoundaryCase, rec: &Rec) -> R {
    use crate::engine::rng::{Pattern, ScriptedRng, Window};
    let mut hits_nc = 0u32;
    let mut hits_c = 0u32;
    for n in 0..HASHES_PER_CASE {
        // a canonical scalar encoding by construction: top byte 0
        let mut secret = [0x5au8; 32];
        secret[..8].copy_from_slice(&n.to_le_bytes());
        secret[8..16].copy_from_slice(&c.seed.to_le_bytes());
        secret[31] = 0;
        let d = digest(&secret, 0);
        if d[31] != Q_LE[31] {
            continue;
        }
        let canonical = wire::sc(&d).is_some();
        let mut bytes = [0u8; 65];
        bytes[32..64].copy_from_slice(&secret);
        if canonical && std::env::var_os("ZKVERIF_C05_REJECT_SIDE_ONLY").is_some() {
            // sensitivity experiments only: look at the refusing direction alone
            continue;
        }
        if canonical {
            // index 0 is the first index with a canonical digest: the pair generation would return it
            hits_c += 1;
            bytes[..32].copy_from_slice(&d);
            ensure!(reference(&bytes), "harness/reference-disagrees-with-construction", "reference refuses a canonical digest");
            decode_and_check(&bytes, true, "canonical", rec)?;
        } else {
            hits_nc += 1;
            bytes[..32].copy_from_slice(&scalar_from_le_reduce(&d).to_bytes());
            ensure!(!reference(&bytes), "harness/reference-disagrees-with-construction", "reference accepts digest mod q");
            decode_and_check(&bytes, false, "non-canonical/lock=digest-mod-q", rec)?;
            bytes[..32].copy_from_slice(&d);
            decode_and_check(&bytes, false, "non-canonical/lock=digest", rec)?;
            // generation from this secret must move on to the first index with a canonical digest
            let mut wide = vec![0u8; 64];
            wide[..32].copy_from_slice(&secret);
            let mut r = ScriptedRng::new(c.seed ^ n, vec![Window { off: 0, len: 64, pat: Pattern::Bytes(wide) }]);
            let pair = zkabacus_crypto::internal::test_new_revocation_pair(&mut r);
            let img = Image::must(&pair);
            rec.eval(1);
            if img.get("secret.secret") == secret {
                let idx = img.get("secret.index")[0];
                let first = (0u8..=255).find(|i| wire::sc(&digest(&secret, *i)).is_some());
                ensure!(
                    Some(idx) == first && img.get("lock") == digest(&secret, idx) && reference(&img.bytes),
                    "C05/generated-pair-violates-hash-invariant",
                    "pair generated from a secret whose index-0 digest is >= q (sharing its top byte): index {} (first canonical index {:?}), lock is{} the digest",
                    idx,
                    first,
                    if img.get("lock") == digest(&secret, idx) { "" } else { " NOT" }
                );
                rec.class("tie-region/generated-from-such-a-secret");
            } else {
                rec.class("tie-region/generator-draws-differently");
            }
        }
    }
    rec.eval(HASHES_PER_CASE);
    for _ in 0..hits_nc {
        rec.class("tie-region/non-canonical/reject");
    }
    for _ in 0..hits_c {
        rec.class("tie-region/canonical/accept");
    }
    if hits_nc > 0 {
        rec.nontrivial(c.seed);
    }
    rec.sample("tie-region", || json!({"seed": c.seed, "hashes": HASHES_PER_CASE, "digests sharing the modulus top byte": hits_c + hits_nc, "of which >= q": hits_nc}));
    Ok(())
}

pub fn checks() -> Vec<CheckDef> {
    vec![
        prop_check(
            "modulus-boundary-digests",
            "directed search: per case 40 000 secrets (canonical by construction) are hashed with index 0 and every digest that shares the most significant byte of the scalar modulus (1/256 of them; ~7 % of those are >= q) is used: digest >= q => lock = digest mod q and lock = digest must both be refused, and RevocationPair generation fed that secret through a scripted RNG must return the first index whose digest is canonical with lock = that digest; digest < q => the pair (digest, secret, 0) - what generation returns for that secret - must decode, satisfy the hash invariant and re-encode identically; oracle: independent SHA3 + canonical-scalar reference; non-trivial = a case with >= 1 digest >= q in the tie region; distinct by case seed",
            &["tie-region/non-canonical/reject", "tie-region/canonical/accept", "tie-region/generated-from-such-a-secret"],
            (480, 20_000),
            boundary_strategy,
            boundary_oracle,
        ),
        prop_check(
            "pair-decoding",
            "generated 65-byte strings lock||secret||index derived from honestly generated pairs: valid; lock / secret / index altered; (secret,index) whose SHA3 digest is not a canonical scalar with lock = digest and lock = digest mod q; lock of another index; random lock; non-canonical secret or lock; the secret written as s+q with index and lock recomputed over those raw bytes; random bytes; truncations. Oracle: decode is Ok <=> both scalars canonical and SHA3-256(secret||index) is a canonical scalar encoding equal to the lock (independent reference); every generated or decoded pair satisfies SHA3(revocation_secret().as_bytes()) == revocation_lock().as_bytes() and re-encodes identically; non-trivial = any altered case; distinct by (kind, seed)",
            &["digest-non-canonical/lock=digest/reject", "digest-non-canonical/lock=digest-mod-q/reject", "lock-altered/reject", "valid/accept", "secret-plus-modulus/lock-and-index-consistent-with-raw-bytes/reject"],
            (40_000, 10_000_000),
            strategy,
            oracle,
        ),
        super::chist::c05_hist_check(),
    ]
}
