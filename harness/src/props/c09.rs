//! C09 — Commitments are the exact Pedersen map and open only to what was committed.

use super::common::*;
use crate::engine::refmath::pedersen;
use crate::engine::wire::Image;
use crate::engine::{pick_idx, prop_check, CheckDef, Rec, Tier, R};
use bls12_381::{G1Projective, G2Projective, Scalar};
use ff::Field;
use proptest::prelude::*;
use serde::{Deserialize, Serialize};
use serde_json::json;
use zkchannels_crypto::pedersen::PedersenParameters;

#[derive(Clone, Debug, Serialize, Deserialize, Hash, PartialEq, Eq)]
pub enum GenMode {
    /// `PedersenParameters::new(rng)`; generators are read back through the encoding.
    Generated(u64),
    /// `from_generators` with generators g·aᵢ of known discrete logs.
    KnownLogs(u64),
    /// as KnownLogs, with generator `dst` made equal to generator `src`.
    Repeated(u64, u16, u16),
    /// `from_generators` with unrelated random points (library's own `G::random`).
    RandomPoints(u64),
}

#[derive(Clone, Debug, Serialize, Deserialize, Hash, PartialEq, Eq)]
pub enum Pert {
    Coord(u16, ScSpec),
    Bf(ScSpec),
    /// (i, j, delta): m_i += δ, m_j -= δ·a_i/a_j — a different opening of the same commitment.
    Collide(u16, u16, ScSpec),
    /// replace the whole message by another one
    Fresh(u64),
    /// (which, idx, k): an algebraically related opening — 0: the whole opening times k, 1: the
    /// message times k, 2: the blinding factor times k, 3: coordinate idx times k. With k = q-1
    /// this is the negated opening, whose recomputed commitment is the inverse element.
    Scale(u8, u16, ScSpec),
}

#[derive(Clone, Debug, Serialize, Deserialize)]
pub struct Case {
    g2: bool,
    n_idx: u8,
    mode: GenMode,
    msg: Vec<ScSpec>,
    bf: ScSpec,
    pert: Pert,
    msg2: Vec<ScSpec>,
    bf2: ScSpec,
}

fn strategy(_t: Tier) -> impl Strategy<Value = Case> {
    let mode = prop_oneof![
        3 => any::<u64>().prop_map(GenMode::Generated),
        4 => any::<u64>().prop_map(GenMode::KnownLogs),
        2 => (any::<u64>(), any::<u16>(), any::<u16>()).prop_map(|(s, a, b)| GenMode::Repeated(s, a, b)),
        1 => any::<u64>().prop_map(GenMode::RandomPoints),
    ];
    let pert = prop_oneof![
        4 => (any::<u16>(), delta_spec()).prop_map(|(i, d)| Pert::Coord(i, d)),
        2 => delta_spec().prop_map(Pert::Bf),
        3 => (any::<u16>(), any::<u16>(), delta_spec()).prop_map(|(i, j, d)| Pert::Collide(i, j, d)),
        1 => any::<u64>().prop_map(Pert::Fresh),
        3 => (0u8..4, any::<u16>(), prop_oneof![3 => Just(ScSpec::MinusOne), 1 => Just(ScSpec::Zero), 1 => Just(ScSpec::Small(2)), 1 => sc_spec()])
            .prop_map(|(w, i, k)| Pert::Scale(w, i, k)),
    ];
    (
        any::<bool>(),
        0u8..6,
        mode,
        msg_specs(),
        sc_spec(),
        pert,
        msg_specs(),
        sc_spec(),
    )
        .prop_map(|(g2, n_idx, mode, msg, bf, pert, msg2, bf2)| Case {
            g2,
            n_idx,
            mode,
            msg,
            bf,
            pert,
            msg2,
            bf2,
        })
}

fn run_g<G: Grp, const N: usize>(c: &Case, rec: &Rec) -> R {
    // --- parameters -------------------------------------------------------------------------
    let gen = G::generator();
    let mut logs: Option<Vec<Scalar>> = None; // a_0 (for h), a_1..a_N
    let (params, mode_label) = match &c.mode {
        GenMode::Generated(s) => (PedersenParameters::<G, N>::new(&mut rng(*s)), "generated"),
        GenMode::RandomPoints(s) => {
            let mut r = rng(*s);
            let h = G::random(&mut r);
            let mut gs = [G::identity(); N];
            for g in gs.iter_mut() {
                *g = G::random(&mut r);
            }
            (PedersenParameters::from_generators(h, gs), "explicit-random")
        }
        GenMode::KnownLogs(s) | GenMode::Repeated(s, _, _) => {
            let mut a: Vec<Scalar> = (0..=N as u64)
                .map(|i| rand_nonzero_scalar(s.wrapping_mul(31).wrapping_add(i)))
                .collect();
            let mut label = "known-logs";
            if let GenMode::Repeated(_, src, dst) = &c.mode {
                if N >= 2 {
                    let si = 1 + pick_idx(*src, N);
                    let mut di = 1 + pick_idx(*dst, N);
                    if di == si {
                        di = 1 + (si % N);
                    }
                    a[di] = a[si];
                    label = "repeated-generator";
                }
            }
            let h = gen * a[0];
            let mut gs = [G::identity(); N];
            for i in 0..N {
                gs[i] = gen * a[i + 1];
            }
            logs = Some(a);
            (PedersenParameters::from_generators(h, gs), label)
        }
    };
    rec.class(&format!("{}/N={}/{}", G::NAME, N, mode_label));

    // generators as the *encoding* of the parameter set states them
    let img = Image::must(&params);
    let h = G::from_atom(img.get("h")).expect("h decodes");
    let gs: Vec<G> = img
        .list("gs")
        .into_iter()
        .map(|i| G::from_atom(img.at(i)).expect("g decodes"))
        .collect();
    ensure!(gs.len() == N, "C09/param-count", "parameter set encodes {} generators, N={}", gs.len(), N);

    // --- commit -----------------------------------------------------------------------------
    let m = scalars::<N>(&c.msg);
    let r = c.bf.get();
    let msg = message::<N>(&c.msg);
    let com = msg.commit(&params, bf(&r));
    let com_el = com.to_element();
    rec.eval(1);
    let reference = pedersen(&h, &gs, &m, &r);
    ensure!(
        com_el == reference,
        "C09/commit-not-pedersen-map",
        "commitment differs from h^r * prod g_i^m_i ({} N={} {})",
        G::NAME,
        N,
        mode_label
    );
    if let Some(a) = &logs {
        // second, purely scalar evaluation: g·(a0·r + Σ aᵢ·mᵢ)
        let mut e = a[0] * r;
        for i in 0..N {
            e += a[i + 1] * m[i];
        }
        rec.eval(1);
        ensure!(
            gen * e == reference && gen * e == com_el,
            "C09/commit-not-pedersen-map",
            "commitment differs from g^(a0 r + sum a_i m_i)"
        );
    }
    // the encoding of the commitment is the encoding of that element
    ensure!(
        Image::must(&com).bytes == reference.to_atom(),
        "C09/commitment-encoding",
        "encoded commitment is not the encoded Pedersen value"
    );

    // --- original opening -------------------------------------------------------------------
    rec.eval(1);
    ensure!(
        com.verify_opening(&params, bf(&r), &msg),
        "C09/original-opening-rejected",
        "verify_opening rejected the opening that was committed"
    );

    // --- perturbed opening ------------------------------------------------------------------
    let mut m2 = m;
    let mut r2 = r;
    let pert_label;
    let mut pert_idx = 0usize;
    match &c.pert {
        Pert::Coord(i, d) => {
            pert_idx = pick_idx(*i, N);
            m2[pert_idx] += nonzero(d);
            pert_label = "coord";
        }
        Pert::Bf(d) => {
            r2 += nonzero(d);
            pert_label = "bf";
        }
        Pert::Fresh(s) => {
            for (i, v) in m2.iter_mut().enumerate() {
                *v = rand_scalar(s.wrapping_add(i as u64));
            }
            pert_label = "fresh-message";
        }
        Pert::Scale(which, i, k) => {
            let k = k.get();
            match which {
                0 => {
                    for v in m2.iter_mut() {
                        *v *= k;
                    }
                    r2 *= k;
                    pert_label = "scaled-opening";
                }
                1 => {
                    for v in m2.iter_mut() {
                        *v *= k;
                    }
                    pert_label = "scaled-message";
                }
                2 => {
                    r2 *= k;
                    pert_label = "scaled-bf";
                }
                _ => {
                    pert_idx = pick_idx(*i, N);
                    m2[pert_idx] *= k;
                    pert_label = "scaled-coord";
                }
            }
        }
        Pert::Collide(i, j, d) => {
            let d = nonzero(d);
            match &logs {
                Some(a) if N >= 2 => {
                    let ii = pick_idx(*i, N);
                    let mut jj = pick_idx(*j, N);
                    if jj == ii {
                        jj = (ii + 1) % N;
                    }
                    m2[ii] += d;
                    m2[jj] -= d * a[ii + 1] * a[jj + 1].invert().unwrap();
                    pert_idx = ii;
                    pert_label = "collision-msg-msg";
                }
                Some(a) => {
                    // N == 1: trade message against blinding factor
                    m2[0] += d;
                    r2 -= d * a[1] * a[0].invert().unwrap();
                    pert_label = "collision-msg-bf";
                }
                None => {
                    m2[pick_idx(*i, N)] += d;
                    pert_label = "coord";
                }
            }
        }
    }
    let expect_accept = pedersen(&h, &gs, &m2, &r2) == reference;
    // expectation by construction
    let by_construction = pert_label.starts_with("collision");
    ensure!(
        expect_accept == by_construction || matches!(c.mode, GenMode::Repeated(..)) || pert_label.starts_with("scaled"),
        "harness/reference-disagrees-with-construction",
        "reference says accept={} for perturbation {}",
        expect_accept,
        pert_label
    );
    let got = com.verify_opening(&params, bf(&r2), &Message::new(m2));
    rec.eval(1);
    rec.class(&format!("pert/{}/{}", pert_label, if expect_accept { "must-accept" } else { "must-reject" }));
    if got != expect_accept {
        return Err(crate::engine::Fail::new(
            if expect_accept { "C09/valid-opening-rejected" } else { "C09/opening-accepted-for-other-value" },
            format!(
                "verify_opening returned {} for a {} perturbation whose recomputed commitment {} the given one ({} N={} idx={})",
                got,
                pert_label,
                if expect_accept { "equals" } else { "differs from" },
                G::NAME,
                N,
                pert_idx
            ),
        )
        .obs(got.to_string(), expect_accept.to_string()));
    }

    // --- cancelling opening: the commitment that is the identity element -----------------------
    // verify_opening is "recomputed == given", with no side condition on the given element: when the
    // terms of the map cancel (known logs: r = -(Σ aᵢmᵢ)/a₀; any parameters: all-zero opening) the
    // commitment is the identity and the genuine opening must still be accepted.
    {
        let (rc, label) = match &logs {
            Some(a) => {
                let mut e = Scalar::zero();
                for i in 0..N {
                    e += a[i + 1] * m[i];
                }
                (-(e * a[0].invert().unwrap()), "cancelling-bf")
            }
            None => (Scalar::zero(), "all-zero-opening"),
        };
        let mc = if logs.is_some() { m } else { [Scalar::zero(); N] };
        let com_c = Message::new(mc).commit(&params, bf(&rc));
        rec.eval(2);
        rec.class(&format!("identity-commitment/{}", label));
        ensure!(
            com_c.to_element() == G::identity() && pedersen(&h, &gs, &mc, &rc) == G::identity(),
            "C09/commit-not-pedersen-map",
            "opening constructed to cancel ({}) does not commit to the identity element ({} N={})",
            label,
            G::NAME,
            N
        );
        ensure!(
            com_c.verify_opening(&params, bf(&rc), &Message::new(mc))
                && commitment_from::<G>(&G::identity()).verify_opening(&params, bf(&rc), &Message::new(mc)),
            "C09/original-opening-rejected",
            "verify_opening rejected the genuine opening of an identity-valued commitment ({} {} N={})",
            label,
            G::NAME,
            N
        );
        // and the identity commitment opens to nothing else
        let mut mo = mc;
        mo[pick_idx(c.n_idx as u16 * 7919, N)] += Scalar::one();
        ensure!(
            !com_c.verify_opening(&params, bf(&rc), &Message::new(mo)) || pedersen(&h, &gs, &mo, &rc) == G::identity(),
            "C09/opening-accepted-for-other-value",
            "identity-valued commitment opened to a shifted message ({} {} N={})",
            label,
            G::NAME,
            N
        );
    }

    // --- homomorphism -----------------------------------------------------------------------
    let mb = scalars::<N>(&c.msg2);
    let rb = c.bf2.get();
    let com_b = message::<N>(&c.msg2).commit(&params, bf(&rb));
    let mut ms = m;
    for i in 0..N {
        ms[i] += mb[i];
    }
    let com_s = Message::new(ms).commit(&params, bf(&(r + rb)));
    rec.eval(1);
    ensure!(
        com_el + com_b.to_element() == com_s.to_element(),
        "C09/not-homomorphic",
        "Com(m1;r1)+Com(m2;r2) != Com(m1+m2;r1+r2)"
    );
    ensure!(
        commitment_from::<G>(&(com_el + com_b.to_element())).verify_opening(&params, bf(&(r + rb)), &Message::new(ms)),
        "C09/not-homomorphic",
        "sum of commitments does not open to the sum of openings"
    );

    let edge = c.msg[..N].iter().any(|s| s.is_edge()) || c.bf.is_edge();
    if N >= 2 || edge {
        rec.nontrivial((G::NAME, N, mode_label, pert_label, pert_idx, c.msg[..N].to_vec(), c.bf.clone()));
    }
    rec.sample(&format!("{}/{}", mode_label, pert_label), || {
        json!({"group": G::NAME, "N": N, "mode": mode_label, "perturbation": pert_label, "index": pert_idx,
               "message": c.msg[..N].iter().map(|s| s.label()).collect::<Vec<_>>(), "bf": c.bf.label(),
               "verify_opening(perturbed)": got})
    });
    Ok(())
}

use zkchannels_crypto::Message;

fn run_g1<const N: usize>(c: &Case, rec: &Rec) -> R {
    run_g::<G1Projective, N>(c, rec)
}
fn run_g2<const N: usize>(c: &Case, rec: &Rec) -> R {
    run_g::<G2Projective, N>(c, rec)
}

fn oracle(c: &Case, rec: &Rec) -> R {
    let n = n_of(c.n_idx);
    if c.g2 {
        with_n!(n, run_g2(c, rec))
    } else {
        with_n!(n, run_g1(c, rec))
    }
}

pub fn checks() -> Vec<CheckDef> {
    vec![prop_check(
        "pedersen-map",
        "cases = (group, N in {1,2,3,5,8,13}, generator mode {generated, known logs, repeated generator, explicit random}, message and blinding factor over {0,1,q-1,small,random}, one perturbation {coordinate, blinding factor, constructed collision, fresh message, opening scaled by k in {q-1 (negation), 0, 2, any} as a whole / message only / blinding factor only / one coordinate}, second opening for additivity); oracle = independent accumulation h^r*prod g_i^m_i over generators read from the parameter encoding, scalar-only evaluation when logs are known, verify_opening == (recomputed reference commitment equals the given one); non-trivial = N>=2 or an edge entry; distinct by (group, N, mode, perturbation kind and index, message, bf)",
        &["pert/scaled-opening/must-reject", "pert/scaled-coord/must-reject", "pert/collision-msg-msg/must-accept"],
        (1600, 60_000),
        strategy,
        oracle,
    )]
}
