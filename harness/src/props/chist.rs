//! History-driven checks: C03, C04, C05 (protocol half), C14, C20 — generated channel histories
//! interpreted against the real customer / merchant API (see `model::history`).

use crate::engine::{prop_check, CheckDef, Rec, Tier, R};
use crate::model::history::*;
use proptest::prelude::*;
use serde::{Deserialize, Serialize};
use serde_json::json;

#[derive(Clone, Debug, Serialize, Deserialize)]
pub struct Case {
    pub hists: Vec<Hist>,
}

fn cases(g: GenOpts, channels: std::ops::RangeInclusive<usize>) -> impl Strategy<Value = Case> {
    proptest::collection::vec(hist(g), channels).prop_map(|hists| Case { hists })
}

fn shape(c: &Case) -> Vec<(u8, String, String, Vec<(String, usize, usize, Option<PayStop>)>)> {
    c.hists
        .iter()
        .map(|h| {
            (
                h.merchant,
                h.cb.label().to_string(),
                h.mb.label().to_string(),
                h.pays.iter().map(|p| (p.amount.label().to_string(), p.faults_close.len(), p.faults_token.len(), p.stop)).collect(),
            )
        })
        .collect()
}

fn run_all(c: &Case, o: Opts, rec: &Rec) -> Result<(World, Vec<serde_json::Value>), crate::engine::Fail> {
    let mut w = World::default();
    let mut outs = Vec::new();
    for h in &c.hists {
        outs.push(run_hist(h, o, &mut w, rec)?);
    }
    Ok((w, outs))
}

fn stat(w: &World, k: &str) -> u64 {
    w.stats.get(k).copied().unwrap_or(0)
}

// ---------------------------------------------------------------------------------------- C04
fn c04_strategy(t: Tier) -> impl Strategy<Value = Case> {
    cases(GenOpts { max_pays: t.pick(8, 40), faults: false, rev_faults: false, stops: false, merchants: 2 }, 1..=1)
}

fn c04_oracle(c: &Case, rec: &Rec) -> R {
    let o = Opts { prop: "C04", close_check: true, twin: false, view: false, c05: false };
    let (w, outs) = run_all(c, o, rec)?;
    let h = &c.hists[0];
    let pays = stat(&w, "payments");
    let boundary = h.pays.iter().any(|p| p.amount.is_boundary()) || h.cb.label() != "random" || h.mb.label() != "random";
    rec.class(&format!("completed-payments/{}", pays.min(9)));
    rec.class(&format!("initial/{}-{}", h.cb.label(), h.mb.label()));
    if h.pays.len() >= 2 && boundary {
        rec.nontrivial(format!("{:?}{:?}", shape(c), outs[0]["trace"]));
    }
    rec.sample(&format!("pays={}", h.pays.len().min(3)), || json!({"cb0": h.cb.get().to_string(), "mb0": h.mb.get().to_string(), "amounts": h.pays.iter().map(|p| p.amount.label()).collect::<Vec<_>>(), "result": outs[0]}));
    Ok(())
}

// ---------------------------------------------------------------------------------------- C03
fn c03_strategy(t: Tier) -> impl Strategy<Value = Case> {
    cases(GenOpts { max_pays: t.pick(4, 5), faults: true, rev_faults: false, stops: true, merchants: 2 }, 1..=2)
}

fn c03_oracle(c: &Case, rec: &Rec) -> R {
    let o = Opts { prop: "C03", close_check: true, twin: false, view: false, c05: false };
    let (w, outs) = run_all(c, o, rec)?;
    let refused = stat(&w, "refused-replies");
    let stopped = c.hists.iter().any(|h| h.est_stop != EstStop::None || h.pays.iter().any(|p| p.stop.is_some()));
    rec.class(&format!("refused-replies/{}", refused.min(9)));
    if stopped {
        rec.class("abort-and-close");
    }
    if refused >= 1 || stopped {
        rec.nontrivial(format!("{:?}{:?}", shape(c), c.hists.iter().map(|h| (h.est_faults_close.clone(), h.est_faults_token.clone(), h.pays.iter().map(|p| (p.faults_close.clone(), p.faults_token.clone())).collect::<Vec<_>>())).collect::<Vec<_>>()));
    }
    rec.sample(&format!("channels={}/refused={}", c.hists.len(), refused.min(3)), || {
        json!({"channels": c.hists.iter().map(|h| json!({"cb0": h.cb.get().to_string(), "mb0": h.mb.get().to_string(),
            "establish_faults": [h.est_faults_close.iter().map(|f| f.label()).collect::<Vec<_>>(), h.est_faults_token.iter().map(|f| f.label()).collect::<Vec<_>>()],
            "payments": h.pays.iter().map(|p| json!({"amount": p.amount.label(), "faults_before_closing_signature": p.faults_close.iter().map(|f| f.label()).collect::<Vec<_>>(), "faults_before_pay_token": p.faults_token.iter().map(|f| f.label()).collect::<Vec<_>>(), "stop": format!("{:?}", p.stop)})).collect::<Vec<_>>()})).collect::<Vec<_>>(),
            "results": outs})
    });
    Ok(())
}

// ---------------------------------------------------------------------------------------- C20
fn c20_strategy(t: Tier) -> impl Strategy<Value = Case> {
    cases(GenOpts { max_pays: t.pick(3, 5), faults: true, rev_faults: false, stops: true, merchants: 2 }, 1..=1)
}

fn c20_oracle(c: &Case, rec: &Rec) -> R {
    let o = Opts { prop: "C20", close_check: false, twin: true, view: false, c05: false };
    let (w, outs) = run_all(c, o, rec)?;
    let pays = stat(&w, "payments");
    let refused = stat(&w, "refused-replies");
    rec.class(&format!("payments/{}", pays.min(9)));
    if refused > 0 {
        rec.class("restored-after-refused-reply");
    }
    if pays >= 1 || refused >= 1 {
        rec.nontrivial(format!("{:?}{}", shape(c), refused));
    }
    rec.sample(&format!("pays={}/refused={}", pays.min(3), refused.min(2)), || json!({"shape": format!("{:?}", shape(c)), "result": outs[0], "refused_replies": refused}));
    Ok(())
}

// ---------------------------------------------------------------------------------------- C14
fn c14_strategy(t: Tier) -> impl Strategy<Value = Case> {
    cases(GenOpts { max_pays: t.pick(3, 4), faults: true, rev_faults: false, stops: true, merchants: 1 }, 1..=3)
}

fn c14_oracle(c: &Case, rec: &Rec) -> R {
    let o = Opts { prop: "C14", close_check: false, twin: false, view: true, c05: false };
    let (w, outs) = run_all(c, o, rec)?;
    let pays = stat(&w, "payments");
    rec.class(&format!("channels/{}", c.hists.len()));
    rec.class(&format!("payments/{}", pays.min(9)));
    rec.note("messages-in-view", w.view.len() as u64);
    rec.note("customer-messages", w.view.iter().filter(|m| m.from_customer).count() as u64);
    rec.note("atoms-in-view", w.view.iter().map(|m| m.atoms.len() as u64).sum());
    if pays >= 2 || c.hists.len() >= 2 {
        rec.nontrivial(format!("{:?}", shape(c)));
    }
    rec.sample(&format!("channels={}", c.hists.len()), || {
        json!({"shape": format!("{:?}", shape(c)), "view": w.view.iter().map(|m| format!("{}{}[{} atoms]", if m.from_customer { "C->M " } else { "M->C " }, m.kind, m.atoms.len())).collect::<Vec<_>>(), "results": outs})
    });
    Ok(())
}

// ---------------------------------------------------------------------------------------- C05
fn c05_strategy(t: Tier) -> impl Strategy<Value = Case> {
    cases(GenOpts { max_pays: t.pick(3, 5), faults: false, rev_faults: true, stops: false, merchants: 2 }, 1..=2)
}

fn c05_oracle(c: &Case, rec: &Rec) -> R {
    let o = Opts { prop: "C05", close_check: false, twin: false, view: false, c05: true };
    let (w, outs) = run_all(c, o, rec)?;
    let refusals = stat(&w, "revocation-refusals");
    rec.class(&format!("revocation-refusals/{}", refusals.min(9)));
    if refusals >= 1 {
        rec.nontrivial(format!("{:?}{:?}", shape(c), c.hists.iter().map(|h| h.pays.iter().map(|p| p.rev_faults.clone()).collect::<Vec<_>>()).collect::<Vec<_>>()));
    }
    rec.sample(&format!("refusals={}", refusals.min(3)), || json!({"shape": format!("{:?}", shape(c)), "candidates": c.hists.iter().map(|h| h.pays.iter().map(|p| format!("{:?}", p.rev_faults)).collect::<Vec<_>>()).collect::<Vec<_>>(), "results": outs}));
    Ok(())
}

pub fn c03_checks() -> Vec<CheckDef> {
    vec![prop_check(
        "close-and-inert-replies",
        "generated histories of 1-2 channels: initial balances from the lattice {0,1,2,2^31,2^32,2^62,2^63-2,2^63-1} and random; 0-4 payments with amounts resolved against the model {0,+-1,+-cb,+-(cb+1),+-mb,+-(mb+1),+-(2^63-1),fill,random}; before every honest merchant reply 0-3 faults from {garbage, valid signature on a state with slot i altered, other reply type, other key, replayed from another session/channel/payment, all-identity (in memory, u=0), (s1,identity)}; aborts after start / after lock / at Inactive. Oracle after every step on a copy of the customer state: close() gives a message the merchant check and an independent pairing check accept on (cid, CLOSE, lock, cb, mb), with the ledger's balances for the stage and a lock never disclosed in a lock message; every faulty reply is refused with the state image unchanged and the honest reply accepted afterwards; the lock message carries the previous state's lock. Non-trivial = a refused reply followed by an accepted one, or a close from Started/Locked/Inactive; distinct by (history shape, faults)",
        &["refused/complete/valid-signature-on-altered-state", "refused/lock/valid-signature-on-altered-state", "refused/unlock/valid-signature-on-altered-state", "close-check/started", "close-check/locked"],
        (64, 6000),
        c03_strategy,
        c03_oracle,
    )]
}

pub fn c04_checks() -> Vec<CheckDef> {
    vec![prop_check(
        "ledger",
        "generated honest histories: initial balances lattice^2 and random, amount-selector sequences of length 0-8 (thorough 0-40) resolved against the model so that boundary hits are frequent; oracle = i128 ledger: establishment completes; in-range amount => start/allow_payment/lock/complete_payment/unlock all succeed and balances of Started (old), Locked (new), Ready (new) and of closing messages of copies equal the ledger; out-of-range => start returns Err with the unchanged Ready (image equality) and InsufficientFunds|AmountTooLarge; non-trivial = >=2 payments with a boundary class; distinct by (shape, outcome trace)",
        &["amount/+-cb/in-range", "amount/+-(cb+1)/out-of-range", "amount/+-(mb+1)/out-of-range", "amount/0/in-range"],
        (96, 2500),
        c04_strategy,
        c04_oracle,
    )]
}

pub fn c05_hist_check() -> CheckDef {
    prop_check(
        "revocation-completion",
        "generated histories with, before the right (pair, blinding factor) of every accepted payment, 0-3 wrong candidates from {pair of another state/channel/session, fresh pair + right bf, right pair + shifted / random / other payment's bf, both from another payment}; oracle: complete_payment is Err for every candidate that does not open the revocation-lock commitment atom of the accepted proof (independent Pedersen evaluation with the merchant's parameters), the pending payment is unchanged (Debug image) and the right pair then succeeds; the released pair opens that commitment; non-trivial = a refusal followed by success; distinct by (shape, candidates)",
        &["revocation/refusal-then-success"],
        (40, 5000),
        c05_strategy,
        c05_oracle,
    )
}

pub fn c14_checks() -> Vec<CheckDef> {
    vec![prop_check(
        "merchant-view",
        "generated multi-channel histories (1-3 channels of one merchant, 0-3 payments each, faults and aborts included; amount selectors as in C04 plus (cb-mb)/2, which makes the two hidden balances coincide); the merchant's view is the ordered list of all protocol messages in both directions split into 32/48/96-byte atoms plus all public parameter elements; oracle: no atom of a customer message equals an atom of an earlier message or a public element (channel id exempt), and no secret scalar / element of the customer state at the time of sending (blinding factors, unrevealed nonce, revocation secret and lock, stored signatures, hidden balances as scalars) occurs in it, deliberate reveals exempt only in the revealing message; no group element occurs twice inside one customer message; non-trivial = >=2 payments or >=2 channels; distinct by history shape",
        &["channels/2", "channels/3", "payment-leaves-equal-balances"],
        (80, 4000),
        c14_strategy,
        c14_oracle,
    )]
}

pub fn c20_checks() -> Vec<CheckDef> {
    vec![prop_check(
        "restore-twin",
        "generated histories (C03 distribution); at every customer step the state is encoded and decoded (twin) and both receive the same merchant reply (valid or faulty) and the same randomness; oracle: decoding succeeds, re-encoding is byte-identical, identical accept/refuse decision, byte-identical next state and outgoing message (start message nonce + proof, lock message); the randomness of a share of the steps is re-keyed until the revocation pair drawn in it has a high index (first k candidate digests non-canonical, k up to 12: naturally 0.4 % at k = 8), so stored states with every legitimate index occur; non-trivial = >=1 payment or a refused reply; distinct by (shape, refusals)",
        &["twin/start", "twin/lock/accepted", "twin/unlock/accepted", "twin/complete/accepted", "revocation-index/initial-state/>=8", "revocation-index/payment-states(max)/>=8"],
        (48, 6000),
        c20_strategy,
        c20_oracle,
    )]
}
