//! C07 — Signature verification accepts exactly the Pointcheval–Sanders relation.

use super::common::*;
use crate::engine::refmath::{ps_verify, PkAtoms};
use crate::engine::rng::{Pattern, ScriptedRng, Window};
use crate::engine::wire;
use crate::engine::{pick_idx, prop_check, CheckDef, Fail, Rec, Tier, R};
use bls12_381::{G1Affine, G1Projective, Scalar};
use group::{Curve, Group};
use proptest::prelude::*;
use serde::{Deserialize, Serialize};
use serde_json::json;
use zkchannels_crypto::{
    pointcheval_sanders::Signature,
    proofs::{ChallengeBuilder, SignatureRequestProofBuilder},
    Message,
};

#[derive(Clone, Debug, Serialize, Deserialize, Hash, PartialEq, Eq)]
pub enum Step {
    Randomize,
    BlindUnblind(ScSpec),
    FullBlindSign,
}

#[derive(Clone, Debug, Serialize, Deserialize, Hash, PartialEq, Eq)]
pub enum Pert {
    Coord(u16, ScSpec),
    OtherKey,
    WrongBf(ScSpec, ScSpec),
    ScaleBoth(ScSpec),
    ScaleS2(ScSpec),
    ScaleS1(ScSpec),
    Arbitrary(u64, u64),
    /// re-randomize with r = 0 through a scripted RNG: the all-identity signature
    RandomizeZero,
    /// blind-sign with u = 0 through a scripted RNG
    BlindSignZero,
    /// (sigma1, identity)
    S2Identity,
    /// move the blinding from one coordinate to another: sigma2 + sigma1*(y_i*delta) recomputed on m_i-delta? (valid sig on altered message)
    ShiftedValid(u16, ScSpec),
}

#[derive(Clone, Debug, Serialize, Deserialize)]
pub struct Case {
    n_idx: u8,
    key: u8,
    msg: Vec<ScSpec>,
    chain: Vec<Step>,
    pert: Pert,
    seed: u64,
}

fn strategy(_t: Tier) -> impl Strategy<Value = Case> {
    let step = prop_oneof![
        3 => Just(Step::Randomize),
        3 => sc_spec().prop_map(Step::BlindUnblind),
        2 => Just(Step::FullBlindSign),
    ];
    let pert = prop_oneof![
        4 => (any::<u16>(), delta_spec()).prop_map(|(i, d)| Pert::Coord(i, d)),
        2 => Just(Pert::OtherKey),
        2 => (sc_spec(), delta_spec()).prop_map(|(b, d)| Pert::WrongBf(b, d)),
        2 => delta_spec().prop_map(Pert::ScaleBoth),
        1 => delta_spec().prop_map(Pert::ScaleS2),
        1 => delta_spec().prop_map(Pert::ScaleS1),
        1 => (any::<u64>(), any::<u64>()).prop_map(|(a, b)| Pert::Arbitrary(a, b)),
        1 => Just(Pert::RandomizeZero),
        1 => Just(Pert::BlindSignZero),
        1 => Just(Pert::S2Identity),
        2 => (any::<u16>(), delta_spec()).prop_map(|(i, d)| Pert::ShiftedValid(i, d)),
    ];
    (
        0u8..6,
        0u8..3,
        msg_specs(),
        proptest::collection::vec(step, 0..5),
        pert,
        any::<u64>(),
    )
        .prop_map(|(n_idx, key, msg, chain, pert, seed)| Case {
            n_idx,
            key,
            msg,
            chain,
            pert,
            seed,
        })
}

pub fn sig_from(s1: &G1Affine, s2: &G1Affine) -> Result<Signature, String> {
    let mut b = Vec::with_capacity(96);
    b.extend_from_slice(&s1.to_compressed());
    b.extend_from_slice(&s2.to_compressed());
    wire::dec::<Signature>(&b)
}

/// Compare the library verdict with the reference relation and with the verdict expected by
/// construction.
fn agree<const N: usize>(
    rec: &Rec,
    what: &str,
    sig: &Signature,
    kp_pk: &zkchannels_crypto::pointcheval_sanders::PublicKey<N>,
    pk: &PkAtoms,
    m: &[Scalar; N],
    expect: Option<bool>,
) -> R {
    let lib = sig.verify(kp_pk, &Message::new(*m));
    let reference = ps_verify(pk, m, &sig.sigma1(), &sig.sigma2());
    rec.eval(1);
    if let Some(e) = expect {
        // signatures produced by the library itself (sign / chain steps) must satisfy the relation:
        // a disagreement there is the library's, not the harness's
        let by_library = what == "sign" || what.starts_with("chain/");
        ensure!(
            reference == e,
            if by_library { "C07/library-produced-signature-does-not-satisfy-relation" } else { "harness/reference-disagrees-with-construction" },
            "{}: reference relation says {}, construction expects {} (N={})",
            what,
            reference,
            e,
            N
        );
    }
    if lib != reference {
        return Err(Fail::new(
            if reference { "C07/valid-signature-rejected" } else { "C07/invalid-signature-accepted" },
            format!("{}: Signature::verify returned {}, the PS relation evaluates to {} (N={})", what, lib, reference, N),
        )
        .obs(lib.to_string(), reference.to_string()));
    }
    rec.class(&format!("{}/{}", what, if reference { "accept" } else { "reject" }));
    Ok(())
}

fn run<const N: usize>(c: &Case, rec: &Rec) -> R {
    let k = keys::<N>(c.key as u64);
    let pk = k.kp.public_key();
    let mut r = rng(c.seed);
    let m = scalars::<N>(&c.msg);
    let msg = Message::new(m);

    let mut sig = msg.sign(&mut r, &k.kp);
    agree(rec, "sign", &sig, pk, &k.pk, &m, Some(true))?;

    for st in &c.chain {
        match st {
            Step::Randomize => sig.randomize(&mut r),
            Step::BlindUnblind(b) => {
                let b = bf(&b.get());
                sig = sig.blind_and_randomize(&mut r, b).unblind(b);
            }
            Step::FullBlindSign => {
                let builder = SignatureRequestProofBuilder::<N>::generate_proof_commitments(
                    &mut r,
                    Message::new(m),
                    &[None; N],
                    pk,
                );
                let ch = ChallengeBuilder::new().with(&builder).finish();
                let b = builder.message_blinding_factor();
                let proof = builder.generate_proof_response(ch);
                let vbm = proof.verify_knowledge_of_opening(pk, ch);
                ensure!(vbm.is_some(), "C07/honest-request-rejected", "honest signature request did not verify");
                sig = vbm.unwrap().blind_sign(&k.kp, &mut r).unblind(b);
            }
        }
        let what = match st {
            Step::Randomize => "chain/randomize",
            Step::BlindUnblind(_) => "chain/blind-unblind",
            Step::FullBlindSign => "chain/blind-sign-unblind",
        };
        agree(rec, what, &sig, pk, &k.pk, &m, Some(true))?;
    }
    // the re-encoded signature behaves identically
    let rt = sig_from(&sig.sigma1(), &sig.sigma2()).map_err(|e| Fail::new("C07/valid-signature-undecodable", e))?;
    agree(rec, "chain/re-encoded", &rt, pk, &k.pk, &m, Some(true))?;

    let s1 = G1Projective::from(sig.sigma1());
    let s2 = G1Projective::from(sig.sigma2());
    let mut pert_idx = 0;
    let label: &str;
    match &c.pert {
        Pert::Coord(i, d) => {
            pert_idx = pick_idx(*i, N);
            let mut m2 = m;
            m2[pert_idx] += nonzero(d);
            label = "pert/coordinate";
            agree(rec, label, &sig, pk, &k.pk, &m2, Some(false))?;
        }
        Pert::OtherKey => {
            let k2 = keys::<N>(c.key as u64 + 17);
            label = "pert/other-key";
            agree(rec, label, &sig, k2.kp.public_key(), &k2.pk, &m, Some(false))?;
        }
        Pert::WrongBf(b, d) => {
            let b1 = b.get();
            let bad = sig.blind_and_randomize(&mut r, bf(&b1)).unblind(bf(&(b1 + nonzero(d))));
            label = "pert/wrong-blinding-factor";
            agree(rec, label, &bad, pk, &k.pk, &m, Some(false))?;
        }
        Pert::ScaleBoth(kk) => {
            let kk = nonzero(kk);
            let s = sig_from(&(s1 * kk).to_affine(), &(s2 * kk).to_affine()).map_err(|e| Fail::new("C07/valid-signature-undecodable", e))?;
            label = "pert/scale-both";
            agree(rec, label, &s, pk, &k.pk, &m, Some(true))?;
        }
        Pert::ScaleS2(kk) => {
            let mut kk = nonzero(kk);
            if kk == Scalar::one() {
                kk += Scalar::one();
            }
            let s = sig_from(&s1.to_affine(), &(s2 * kk).to_affine()).map_err(|e| Fail::new("harness/sig-undecodable", e))?;
            label = "pert/scale-sigma2";
            // valid only if sigma2 is the identity (x + sum y_i m_i = 0), never by construction
            agree(rec, label, &s, pk, &k.pk, &m, Some(false))?;
        }
        Pert::ScaleS1(kk) => {
            let mut kk = nonzero(kk);
            if kk == Scalar::one() {
                kk += Scalar::one();
            }
            let s = sig_from(&(s1 * kk).to_affine(), &s2.to_affine()).map_err(|e| Fail::new("harness/sig-undecodable", e))?;
            label = "pert/scale-sigma1";
            agree(rec, label, &s, pk, &k.pk, &m, Some(false))?;
        }
        Pert::Arbitrary(a, b) => {
            let p1 = G1Projective::generator() * rand_nonzero_scalar(*a);
            let p2 = G1Projective::generator() * rand_scalar(*b);
            let s = sig_from(&p1.to_affine(), &p2.to_affine()).map_err(|e| Fail::new("harness/sig-undecodable", e))?;
            label = "pert/arbitrary-pair";
            agree(rec, label, &s, pk, &k.pk, &m, None)?;
        }
        Pert::RandomizeZero => {
            let mut z = ScriptedRng::new(c.seed, vec![Window { off: 0, len: 64, pat: Pattern::Zero }]);
            let mut s = sig;
            s.randomize(&mut z);
            ensure!(z.covered >= 1, "harness/zero-window-missed", "the zero window did not cover the re-randomizer draw");
            ensure!(
                bool::from(s.sigma1().is_identity()) && bool::from(s.sigma2().is_identity()),
                "harness/degenerate-not-reached",
                "randomize with r=0 did not give the all-identity signature"
            );
            label = "degenerate/all-identity-by-randomize";
            agree(rec, label, &s, pk, &k.pk, &m, Some(false))?;
            ensure!(!s.is_well_formed(), "C07/identity-well-formed", "all-identity signature reported well-formed");
        }
        Pert::BlindSignZero => {
            let builder = SignatureRequestProofBuilder::<N>::generate_proof_commitments(&mut r, Message::new(m), &[None; N], pk);
            let ch = ChallengeBuilder::new().with(&builder).finish();
            let b = builder.message_blinding_factor();
            let proof = builder.generate_proof_response(ch);
            let vbm = proof.verify_knowledge_of_opening(pk, ch);
            ensure!(vbm.is_some(), "C07/honest-request-rejected", "honest signature request did not verify");
            let mut z = ScriptedRng::new(c.seed, vec![Window { off: 0, len: 64, pat: Pattern::Zero }]);
            let s = vbm.unwrap().blind_sign(&k.kp, &mut z).unblind(b);
            ensure!(z.covered >= 1, "harness/zero-window-missed", "the zero window did not cover the blind-signing draw");
            label = "degenerate/all-identity-by-blind-sign";
            agree(rec, label, &s, pk, &k.pk, &m, Some(false))?;
        }
        Pert::S2Identity => {
            let s = sig_from(&s1.to_affine(), &G1Affine::identity()).map_err(|e| Fail::new("harness/sig-undecodable", e))?;
            label = "degenerate/sigma2-identity";
            agree(rec, label, &s, pk, &k.pk, &m, Some(false))?;
        }
        Pert::ShiftedValid(i, d) => {
            // sigma2 + sigma1*(y_i*delta) is a valid signature on m + delta*e_i and on nothing nearer
            pert_idx = pick_idx(*i, N);
            let d = nonzero(d);
            let s2b = s2 + s1 * (k.sk.ys[pert_idx] * d);
            let s = sig_from(&s1.to_affine(), &s2b.to_affine()).map_err(|e| Fail::new("harness/sig-undecodable", e))?;
            let mut m2 = m;
            m2[pert_idx] += d;
            label = "pert/shifted-valid";
            agree(rec, label, &s, pk, &k.pk, &m2, Some(true))?;
            agree(rec, "pert/shifted-on-original", &s, pk, &k.pk, &m, Some(false))?;
        }
    }

    if c.chain.len() >= 2 || !label.starts_with("pert/scale-both") {
        rec.nontrivial((N, c.key, c.msg[..N].to_vec(), c.chain.clone(), label, pert_idx));
    }
    rec.class(&format!("N={}", N));
    rec.class(&format!("chain-len={}", c.chain.len()));
    rec.sample(label, || {
        json!({"N": N, "key": c.key, "message": c.msg[..N].iter().map(|s| s.label()).collect::<Vec<_>>(),
               "chain": format!("{:?}", c.chain), "perturbation": format!("{:?}", c.pert)})
    });
    Ok(())
}

fn oracle(c: &Case, rec: &Rec) -> R {
    with_n!(n_of(c.n_idx), run(c, rec))
}

pub fn checks() -> Vec<CheckDef> {
    vec![prop_check(
        "ps-relation",
        "cases = (N in {1,2,3,5,8,13}, key from a pool, message over {0,1,q-1,small,random}, derivation chain of 0-4 steps over {randomize, blind_and_randomize+unblind, request-proof+blind_sign+unblind} after sign, one perturbation among {coordinate, other key, wrong blinding factor, (s1^k,s2^k), (s1,s2^k), (s1^k,s2), arbitrary pair, all-identity via r=0 / u=0 scripted RNG, (s1,identity), valid signature on a shifted message}); oracle = Signature::verify == independent two-pairing evaluation from the key's wire atoms, and reference == verdict expected by construction; non-trivial = chain >= 2 or a rejecting/degenerate perturbation; distinct by (N, key, message, chain, perturbation, index)",
        &["degenerate/all-identity-by-randomize/reject", "pert/coordinate/reject", "chain/blind-sign-unblind/accept"],
        (1200, 60_000),
        strategy,
        oracle,
    )]
}
