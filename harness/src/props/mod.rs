#[macro_use]
pub mod common;
pub mod c07;
pub mod c08;
pub mod c09;
pub mod c11;
pub mod c16;

use crate::engine::CheckDef;

pub fn all() -> Vec<(&'static str, fn() -> Vec<CheckDef>)> {
    vec![
        ("C07", c07::checks as fn() -> Vec<CheckDef>),
        ("C08", c08::checks),
        ("C09", c09::checks),
        ("C11", c11::checks),
    ]
}
