#[macro_use]
pub mod common;
pub mod c15;
pub mod c16;
pub mod fuzz;
pub mod types;

// Everything else is only needed by the driver binary (feature `full`, on by default); the
// cargo-fuzz targets link the slim library.
#[cfg(feature = "full")]
pub mod c01;
#[cfg(feature = "full")]
pub mod c02;
#[cfg(feature = "full")]
pub mod c05;
#[cfg(feature = "full")]
pub mod c06;
#[cfg(feature = "full")]
pub mod c07;
#[cfg(feature = "full")]
pub mod c08;
#[cfg(feature = "full")]
pub mod c09;
#[cfg(feature = "full")]
pub mod c10;
#[cfg(feature = "full")]
pub mod c11;
#[cfg(feature = "full")]
pub mod c12;
#[cfg(feature = "full")]
pub mod c12z;
#[cfg(feature = "full")]
pub mod c13;
#[cfg(feature = "full")]
pub mod c17;
#[cfg(feature = "full")]
pub mod c18;
#[cfg(feature = "full")]
pub mod c19;
#[cfg(feature = "full")]
pub mod chist;

use crate::engine::CheckDef;

#[cfg(feature = "full")]
pub fn all() -> Vec<(&'static str, fn() -> Vec<CheckDef>)> {
    vec![
        ("C01", c01::checks as fn() -> Vec<CheckDef>),
        ("C02", c02::checks),
        ("C03", chist::c03_checks),
        ("C04", chist::c04_checks),
        ("C05", c05::checks),
        ("C06", c06::checks),
        ("C07", c07::checks),
        ("C08", c08::checks),
        ("C09", c09::checks),
        ("C10", c10::checks),
        ("C11", c11::checks),
        ("C12", c12::checks),
        ("C13", c13::checks),
        ("C14", chist::c14_checks),
        ("C15", c15::checks),
        ("C16", c16::checks),
        ("C17", c17::checks),
        ("C18", c18::checks),
        ("C19", c19::checks),
        ("C20", chist::c20_checks),
    ]
}

#[cfg(not(feature = "full"))]
pub fn all() -> Vec<(&'static str, fn() -> Vec<CheckDef>)> {
    vec![("C15", c15::checks as fn() -> Vec<CheckDef>), ("C16", c16::checks)]
}

#[cfg(feature = "full")]
pub mod fuzzstage;
