#[macro_use]
pub mod common;
pub mod c01;
pub mod c02;
pub mod c05;
pub mod c06;
pub mod c07;
pub mod c08;
pub mod c09;
pub mod c10;
pub mod c11;
pub mod c12;
pub mod c12z;
pub mod c13;
pub mod c15;
pub mod c16;
pub mod c17;
pub mod c18;
pub mod c19;
pub mod chist;
pub mod fuzz;
pub mod types;

use crate::engine::CheckDef;

pub fn all() -> Vec<(&'static str, fn() -> Vec<CheckDef>)> {
    vec![
        ("C01", c01::checks as fn() -> Vec<CheckDef>),
        ("C02", c02::checks),
        ("C03", chist::c03_checks),
        ("C04", chist::c04_checks),
        ("C05", c05::checks),
        ("C06", c06::checks),
        ("C07", c07::checks),
        ("C08", c08::checks),
        ("C09", c09::checks),
        ("C10", c10::checks),
        ("C11", c11::checks),
        ("C12", c12::checks),
        ("C13", c13::checks),
        ("C14", chist::c14_checks),
        ("C15", c15::checks),
        ("C16", c16::checks),
        ("C17", c17::checks),
        ("C18", c18::checks),
        ("C19", c19::checks),
        ("C20", chist::c20_checks),
    ]
}
