//! Generators and helpers shared by the property modules.

use crate::engine::refmath::{self, PkAtoms, SkAtoms};
use crate::engine::wire::{self, Image, Kind};
use bls12_381::{G1Affine, G1Projective, G2Affine, G2Projective, Scalar};
use group::{Curve, Group};
use proptest::prelude::*;
use rand_chacha::ChaCha20Rng;
use rand_core::SeedableRng;
use serde::{Deserialize, Serialize};
use std::any::Any;
use std::collections::HashMap;
use std::sync::{Arc, Mutex, OnceLock};
use zkchannels_crypto::{
    pedersen::Commitment, pointcheval_sanders::KeyPair, BlindingFactor, Message, SerializeElement,
};

pub const NS: [usize; 6] = [1, 2, 3, 5, 8, 13];

/// Dispatch a const-generic function on a runtime tuple length.
#[macro_export]
macro_rules! with_n {
    ($n:expr, $f:ident ( $($arg:expr),* )) => {
        match $n {
            1 => $f::<1>($($arg),*),
            2 => $f::<2>($($arg),*),
            3 => $f::<3>($($arg),*),
            5 => $f::<5>($($arg),*),
            8 => $f::<8>($($arg),*),
            13 => $f::<13>($($arg),*),
            other => panic!("unsupported N {}", other),
        }
    };
}

#[derive(Clone, Debug, Serialize, Deserialize, Hash, PartialEq, Eq)]
pub enum ScSpec {
    Zero,
    One,
    MinusOne,
    Small(u16),
    Rand(u64),
    /// 2^k + off (off in -2..=2), optionally negated: powers of two next to every limb and bit boundary
    Pow { k: u8, off: i8, neg: bool },
    /// a value of exactly `bits` significant bits (top bit set, the rest from `seed`), optionally negated:
    /// magnitudes spread evenly over bit lengths instead of "tiny or full-width"
    BitLen { bits: u8, seed: u64, neg: bool },
}

fn limbs_scalar(l: [u64; 4], neg: bool) -> Scalar {
    let v = Scalar::from_raw(l);
    if neg {
        -v
    } else {
        v
    }
}

impl ScSpec {
    pub fn get(&self) -> Scalar {
        match self {
            ScSpec::Zero => Scalar::zero(),
            ScSpec::One => Scalar::one(),
            ScSpec::MinusOne => -Scalar::one(),
            ScSpec::Small(v) => Scalar::from(*v as u64),
            ScSpec::Rand(s) => rand_scalar(*s),
            ScSpec::Pow { k, off, neg } => {
                let k = (*k % 255) as usize;
                let mut l = [0u64; 4];
                l[k / 64] = 1u64 << (k % 64);
                let p = Scalar::from_raw(l);
                let o = if *off >= 0 { Scalar::from(*off as u64) } else { -Scalar::from((-(*off as i64)) as u64) };
                let v = p + o;
                if *neg {
                    -v
                } else {
                    v
                }
            }
            ScSpec::BitLen { bits, seed, neg } => {
                let bits = (*bits % 254) as usize + 1; // 1..=254
                let r = refmath::sha3(&[b"zkverif-bitlen", &seed.to_le_bytes()]);
                let mut l = [0u64; 4];
                for i in 0..4 {
                    l[i] = u64::from_le_bytes(r[8 * i..8 * i + 8].try_into().unwrap());
                }
                let top = (bits - 1) / 64;
                let tb = (bits - 1) % 64;
                for i in top + 1..4 {
                    l[i] = 0;
                }
                l[top] &= if tb == 63 { u64::MAX } else { (1u64 << (tb + 1)) - 1 };
                l[top] |= 1u64 << tb;
                limbs_scalar(l, *neg)
            }
        }
    }
    pub fn is_edge(&self) -> bool {
        matches!(self, ScSpec::Zero | ScSpec::One | ScSpec::MinusOne)
    }
    pub fn label(&self) -> &'static str {
        match self {
            ScSpec::Zero => "0",
            ScSpec::One => "1",
            ScSpec::MinusOne => "q-1",
            ScSpec::Small(_) => "small",
            ScSpec::Rand(_) => "random",
            ScSpec::Pow { .. } => "pow2-boundary",
            ScSpec::BitLen { .. } => "bit-length",
        }
    }
}

pub fn rand_scalar(seed: u64) -> Scalar {
    let a = refmath::sha3(&[b"zkverif-scalar-a", &seed.to_le_bytes()]);
    let b = refmath::sha3(&[b"zkverif-scalar-b", &seed.to_le_bytes()]);
    let mut wide = [0u8; 64];
    wide[..32].copy_from_slice(&a);
    wide[32..].copy_from_slice(&b);
    Scalar::from_bytes_wide(&wide)
}

pub fn rand_nonzero_scalar(seed: u64) -> Scalar {
    let mut s = seed;
    loop {
        let v = rand_scalar(s);
        if v != Scalar::zero() {
            return v;
        }
        s = s.wrapping_add(0x9e37_79b9_7f4a_7c15);
    }
}

pub fn sc_spec() -> impl Strategy<Value = ScSpec> {
    prop_oneof![
        1 => Just(ScSpec::Zero),
        1 => Just(ScSpec::One),
        1 => Just(ScSpec::MinusOne),
        2 => any::<u16>().prop_map(ScSpec::Small),
        4 => any::<u64>().prop_map(ScSpec::Rand),
        1 => (pow_k(), -2i8..=2, any::<bool>()).prop_map(|(k, off, neg)| ScSpec::Pow { k, off, neg }),
        2 => (any::<u8>(), any::<u64>(), proptest::bool::weighted(0.2)).prop_map(|(bits, seed, neg)| ScSpec::BitLen { bits, seed, neg }),
    ]
}

/// Exponents for `ScSpec::Pow`: half of them on a 64-bit limb boundary (k = 63, 64, 127, 128, 191, 192)
/// or next to the top of the field (253, 254), the rest anywhere.
fn pow_k() -> impl Strategy<Value = u8> {
    prop_oneof![
        1 => proptest::sample::select(vec![63u8, 64, 127, 128, 191, 192, 253, 254, 31, 32]),
        1 => 0u8..255,
    ]
}

/// A non-zero delta.
pub fn delta_spec() -> impl Strategy<Value = ScSpec> {
    prop_oneof![
        2 => Just(ScSpec::One),
        2 => Just(ScSpec::MinusOne),
        1 => (1u16..).prop_map(ScSpec::Small),
        3 => any::<u64>().prop_map(ScSpec::Rand),
    ]
}

pub fn nonzero(s: &ScSpec) -> Scalar {
    let v = s.get();
    if v == Scalar::zero() {
        Scalar::one()
    } else {
        v
    }
}

/// Message tuples (13 entries; a check uses the first N). Besides independent entries there are
/// structured shapes that independent sampling practically never produces: sparse tuples (all
/// zero except a few positions), runs of zeros / equal values at any alignment, constant tuples.
pub fn msg_specs() -> impl Strategy<Value = Vec<ScSpec>> {
    let independent = proptest::collection::vec(sc_spec(), 13);
    let sparse = (proptest::collection::vec((0usize..13, sc_spec()), 1..4)).prop_map(|nz| {
        let mut v = vec![ScSpec::Zero; 13];
        for (i, s) in nz {
            v[i] = s;
        }
        v
    });
    let run = (proptest::collection::vec(sc_spec(), 13), 0usize..13, 1usize..13, sc_spec()).prop_map(|(mut v, start, len, fill)| {
        for i in start..(start + len).min(13) {
            v[i] = fill.clone();
        }
        v
    });
    let zero_run = (proptest::collection::vec(sc_spec(), 13), 0usize..13, 1usize..13).prop_map(|(mut v, start, len)| {
        for i in start..(start + len).min(13) {
            v[i] = ScSpec::Zero;
        }
        v
    });
    prop_oneof![
        6 => independent,
        2 => sparse,
        1 => run,
        2 => zero_run,
    ]
}

pub fn n_of(idx: u8) -> usize {
    NS[(idx as usize) % NS.len()]
}

pub fn message<const N: usize>(specs: &[ScSpec]) -> Message<N> {
    let mut a = [Scalar::zero(); N];
    for i in 0..N {
        a[i] = specs[i].get();
    }
    Message::new(a)
}

pub fn scalars<const N: usize>(specs: &[ScSpec]) -> [Scalar; N] {
    let mut a = [Scalar::zero(); N];
    for i in 0..N {
        a[i] = specs[i].get();
    }
    a
}

pub fn rng(seed: u64) -> ChaCha20Rng {
    ChaCha20Rng::seed_from_u64(seed)
}

/// Inject a chosen scalar as a blinding factor through its wire form.
pub fn bf(s: &Scalar) -> BlindingFactor {
    wire::dec::<BlindingFactor>(&s.to_bytes()).expect("blinding factor decodes from a canonical scalar")
}

/// Group abstraction for G1 / G2 in the generic checks.
pub trait Grp:
    Group<Scalar = Scalar> + SerializeElement + group::GroupEncoding + Send + Sync + 'static
{
    const NAME: &'static str;
    const KIND: Kind;
    fn from_atom(b: &[u8]) -> Option<Self>;
    fn to_atom(&self) -> Vec<u8>;
}
impl Grp for G1Projective {
    const NAME: &'static str = "G1";
    const KIND: Kind = Kind::G1;
    fn from_atom(b: &[u8]) -> Option<Self> {
        wire::g1(b).map(Into::into)
    }
    fn to_atom(&self) -> Vec<u8> {
        self.to_affine().to_compressed().to_vec()
    }
}
impl Grp for G2Projective {
    const NAME: &'static str = "G2";
    const KIND: Kind = Kind::G2;
    fn from_atom(b: &[u8]) -> Option<Self> {
        wire::g2(b).map(Into::into)
    }
    fn to_atom(&self) -> Vec<u8> {
        self.to_affine().to_compressed().to_vec()
    }
}

pub fn commitment_from<G: Grp>(p: &G) -> Commitment<G> {
    wire::dec::<Commitment<G>>(&p.to_atom()).expect("commitment decodes from a valid point")
}

type Cache = Mutex<HashMap<(usize, u64), Arc<dyn Any + Send + Sync>>>;
fn kp_cache() -> &'static Cache {
    static C: OnceLock<Cache> = OnceLock::new();
    C.get_or_init(|| Mutex::new(HashMap::new()))
}

pub struct Keys<const N: usize> {
    pub kp: KeyPair<N>,
    pub pk: PkAtoms,
    pub sk: SkAtoms,
    pub img: Image,
}

/// Key pair number `seed` for tuple length N (cached; deterministic in `seed`).
pub fn keys<const N: usize>(seed: u64) -> Arc<Keys<N>> {
    if let Some(k) = kp_cache().lock().unwrap().get(&(N, seed)) {
        return k.clone().downcast::<Keys<N>>().expect("cache type");
    }
    let kp = KeyPair::<N>::new(&mut rng(0x6b65_7900 ^ seed.wrapping_mul(0x1000_0000_01b3) ^ (N as u64)));
    let img = Image::must(&kp);
    let pk = PkAtoms::from_image(&img, "pk");
    let sk = SkAtoms::from_image(&img, "sk");
    let k = Arc::new(Keys { kp, pk, sk, img });
    kp_cache()
        .lock()
        .unwrap()
        .insert((N, seed), k.clone() as Arc<dyn Any + Send + Sync>);
    k
}

/// Range-constraint parameter set number `seed` (cached; generation costs ~0.5 s).
pub fn range_params(seed: u64) -> Arc<zkchannels_crypto::proofs::RangeConstraintParameters> {
    type P = zkchannels_crypto::proofs::RangeConstraintParameters;
    static C: OnceLock<Mutex<HashMap<u64, Arc<P>>>> = OnceLock::new();
    let c = C.get_or_init(|| Mutex::new(HashMap::new()));
    if let Some(p) = c.lock().unwrap().get(&seed) {
        return p.clone();
    }
    let p = Arc::new(P::new(&mut rng(0x7a6e_0000 + seed)));
    c.lock().unwrap().insert(seed, p.clone());
    p
}

pub fn g1_of(a: &G1Affine) -> G1Projective {
    a.into()
}
pub fn g2_of(a: &G2Affine) -> G2Projective {
    a.into()
}

/// Start-of-run self test: traced layouts tile the real encodings, field names relied upon exist,
/// and the invalid-encoding table has the validity it claims. Panics (=> exit 2) on drift.
pub fn schema_selftest() {
    let k = keys::<2>(0);
    for f in ["sk.x", "sk.ys.0", "sk.x1", "pk.g1", "pk.y1s.1", "pk.g2", "pk.x2", "pk.y2s.1"] {
        let _ = k.img.idx(f);
    }
    let rt = Image::must(&k.kp);
    assert_eq!(rt.bytes, k.img.bytes);
    assert!(wire::sc(&wire::Q_LE).is_none(), "q must be non-canonical");
    for kind in [Kind::G1, Kind::G2, Kind::B32] {
        for e in wire::bad_table(kind) {
            assert_eq!(
                wire::kind_valid(kind, &e.bytes),
                e.kind_valid,
                "invalid-encoding table entry {:?}/{}",
                kind,
                e.label
            );
        }
    }
    // the reference PS relation agrees with a value known by construction
    let m = [Scalar::from(7u64), -Scalar::one()];
    let h = G1Projective::generator() * Scalar::from(11u64);
    let e = k.sk.x + k.sk.ys[0] * m[0] + k.sk.ys[1] * m[1];
    let s2 = h * e;
    assert!(refmath::ps_verify(&k.pk, &m, &h.to_affine(), &s2.to_affine()));
    assert!(!refmath::ps_verify(&k.pk, &[m[0], Scalar::one()], &h.to_affine(), &s2.to_affine()));
}
