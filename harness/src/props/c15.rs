//! C15 — Wire round-trips are lossless and decoded values satisfy every type invariant.

use super::common::*;
use super::types::{honest_image, registry};
use crate::engine::refmath::{ps_verify, sha3, PkAtoms};
use crate::engine::wire::{self, Atom, Image, Kind};
use crate::engine::{enum_check, prop_check, CheckDef, Ctx, Fail, Rec, Tier, R};
const MAXB: u64 = i64::MAX as u64;
use bls12_381::Scalar;
use proptest::prelude::*;
use serde::{Deserialize, Serialize};
use serde_json::json;
use std::str::FromStr;
use zkabacus_crypto::{ChannelId, CLOSE_SCALAR};
use zkchannels_crypto::{pointcheval_sanders::KeyPair, Message};

fn raw_bytes_type(a: &Atom) -> bool {
    matches!(a.ty.as_str(), "ChannelId" | "CustomerRandomness" | "MerchantRandomness")
}

fn must_be_non_identity(a: &Atom) -> bool {
    matches!(a.ty.as_str(), "PublicKey" | "PedersenParameters") || (a.ty == "SecretKey" && a.field == "x1") || (a.ty == "Signature" && a.field == "sigma1")
}

/// Independent acceptance of one atom: kind validity plus the invariant the property lists for
/// its (type, field).
fn atom_ok(a: &Atom, b: &[u8]) -> bool {
    match a.kind {
        Kind::G1 | Kind::G2 => wire::kind_valid(a.kind, b) && !(must_be_non_identity(a) && wire::is_identity_enc(a.kind, b)),
        Kind::B32 => {
            if raw_bytes_type(a) {
                return true;
            }
            let Some(s) = wire::sc(b) else { return false };
            if a.ty == "SecretKey" && (a.field == "x" || a.field == "ys") && s == Scalar::zero() {
                return false;
            }
            if a.ty == "Nonce" && s == CLOSE_SCALAR {
                return false;
            }
            true
        }
        Kind::U64 => !(a.ty == "Balance" && u64::from_le_bytes(b.try_into().unwrap()) > MAXB),
        Kind::Len(n) => u64::from_le_bytes(b.try_into().unwrap()) == n,
        // the only enum on the wire is `Error`, with two variants
        Kind::Tag => u32::from_le_bytes(b.try_into().unwrap()) < 2,
        _ => true,
    }
}

/// Reference decoder acceptance for an image laid out like `template`.
pub fn decode_ref(template: &Image, bytes: &[u8]) -> bool {
    if bytes.len() < template.bytes.len() {
        return false;
    }
    for a in &template.atoms {
        if !atom_ok(a, &bytes[a.off..a.off + a.len]) {
            return false;
        }
    }
    // revocation pairs: lock = canonical SHA3(secret || index)
    for a in &template.atoms {
        if a.ty == "RevocationSecret" && a.path.ends_with("secret.secret") {
            let prefix = &a.path[..a.path.len() - "secret.secret".len()];
            let (Some(l), Some(i)) = (template.find(&format!("{}lock", prefix)), template.find(&format!("{}secret.index", prefix))) else { continue };
            let d = sha3(&[&bytes[a.off..a.off + 32], &bytes[i.off..i.off + 1]]);
            if wire::sc(&d).is_none() || d != bytes[l.off..l.off + 32] {
                return false;
            }
        }
    }
    true
}

// ---------------------------------------------------------------------------------- tampering

#[derive(Clone, Debug, Serialize, Deserialize)]
pub struct TamperCase {
    ty: String,
    seed: u64,
    atom: usize,
    entry: usize,
}

/// Role-specific boundary values in addition to the kind's table.
fn table_for(a: &Atom) -> Vec<(String, Vec<u8>)> {
    let mut t: Vec<(String, Vec<u8>)> = wire::bad_table(match a.kind {
        Kind::B32 | Kind::G1 | Kind::G2 | Kind::U64 | Kind::I64 => a.kind,
        _ => Kind::Bool,
    })
    .iter()
    .map(|e| (e.label.to_string(), e.bytes.clone()))
    .collect();
    if a.kind == Kind::U8 {
        t.push(("0".into(), vec![0]));
        t.push(("255".into(), vec![255]));
    }
    if a.kind == Kind::Tag {
        for v in [0u32, 1, 2, u32::MAX] {
            t.push((format!("tag={}", v), v.to_le_bytes().to_vec()));
        }
    }
    if let Kind::Len(n) = a.kind {
        // element count of a fixed-size array: only the true count is canonical
        let mut vals: Vec<(String, u64)> = vec![
            ("count+1".into(), n + 1),
            ("count+2".into(), n + 2),
            ("count*2".into(), n * 2 + 1),
            ("count+2^32".into(), n + (1 << 32)),
            ("count=2^63".into(), 1 << 63),
            ("count=2^64-1".into(), u64::MAX),
        ];
        if n > 0 {
            vals.push(("count-1".into(), n - 1));
            vals.push(("count=0".into(), 0));
        }
        for (l, v) in vals {
            if v != n {
                t.push((l, v.to_le_bytes().to_vec()));
            }
        }
    }
    t
}

fn tamper_gen(ctx: &Ctx) -> Vec<TamperCase> {
    let seeds: Vec<u64> = match ctx.tier {
        Tier::Quick => vec![ctx.seed % 4],
        Tier::Thorough => vec![ctx.seed % 4, (ctx.seed + 1) % 4],
    };
    let mut out = Vec::new();
    for (id, t) in registry().iter().enumerate() {
        for &seed in &seeds {
            let img = honest_image(id, seed);
            let n = img.atoms.len();
            let cap = ctx.tier.pick(40usize, usize::MAX);
            for (ai, a) in img.atoms.iter().enumerate() {
                if matches!(a.kind, Kind::Len(_)) && t.name.starts_with("codec Vec") {
                    continue; // a true variable-length sequence: another count is another value (robustness: C16)
                }
                // quick: for big types keep a spread of atoms (always first and last)
                if n > cap && !(ai < 8 || ai + 8 >= n || (ai.wrapping_mul(2654435761) ^ ctx.seed as usize) % n < cap) {
                    continue;
                }
                for ei in 0..table_for(a).len() {
                    out.push(TamperCase { ty: t.name.clone(), seed, atom: ai, entry: ei });
                }
            }
        }
    }
    out
}

fn tamper_oracle(c: &TamperCase, rec: &Rec) -> R {
    let id = super::types::type_id(&c.ty).ok_or_else(|| Fail::new("harness/unknown-type", c.ty.clone()))?;
    let t = &registry()[id];
    let img = honest_image(id, c.seed);
    let a = &img.atoms[c.atom];
    let table = table_for(a);
    let (label, repl) = &table[c.entry % table.len()];
    let bytes = img.with_at(c.atom, repl);
    let mut expect = decode_ref(&img, &bytes);
    if c.ty == "Error" && a.kind == Kind::Tag {
        // the enum `Error` is the one variable-length type: a changed tag changes the layout
        // (tag 0 = AmountTooLarge(u64): 12 bytes, tag 1 = InsufficientFunds: 4 bytes), so the
        // honest value's template does not apply; state the expectation directly
        expect = match u32::from_le_bytes(repl[..4].try_into().unwrap()) {
            0 => bytes.len() >= 12,
            1 => bytes.len() >= 4,
            _ => false,
        };
    }
    let got = (t.decode)(&bytes);
    rec.eval(1);
    if got.is_ok() != expect {
        let role = if a.ty.is_empty() { "-".to_string() } else { format!("{}.{}", a.ty, a.field) };
        return Err(Fail::new(
            if expect { format!("C15/rejects-valid/{}/{}", role, label) } else { format!("C15/accepts-invalid/{}/{}", role, label) },
            format!("decoding a {} whose atom '{}' ({:?}, role {}) was replaced by '{}' returned ok={}; the schema decoder (canonical encodings + listed invariants) says {}", c.ty, a.path, a.kind, role, label, got.is_ok(), expect),
        )
        .obs(got.is_ok().to_string(), expect.to_string()));
    }
    if let Ok(re) = got {
        // canonical: the value re-encodes to exactly the bytes the decoder consumed (trailing bytes
        // are a bincode option, not a library claim; only the enum `Error` has variable length)
        ensure!(bytes.starts_with(&re) && (re.len() == bytes.len() || c.ty == "Error"), format!("C15/non-canonical-accepted/{}", c.ty), "decoded value re-encodes to different bytes");
    }
    rec.class(&format!("{:?}/{}/{}", a.kind, label, if expect { "accept" } else { "reject" }));
    rec.nontrivial((c.ty.clone(), c.atom, c.entry, c.seed));
    rec.sample(&format!("{:?}/{}", a.kind, label), || json!({"type": c.ty, "atom": a.path, "kind": format!("{:?}", a.kind), "replacement": label, "decodes": expect}));
    Ok(())
}

// --------------------------------------------------------------------------------- round trips

#[derive(Clone, Debug, Serialize, Deserialize)]
pub struct RtCase {
    ty: String,
    seed: u64,
}

fn rt_gen(ctx: &Ctx) -> Vec<RtCase> {
    let mut out = Vec::new();
    for t in registry().iter() {
        for s in 0..ctx.tier.pick(3u64, 24u64) {
            out.push(RtCase { ty: t.name.clone(), seed: ctx.seed.wrapping_mul(31).wrapping_add(s) });
        }
    }
    out
}

fn rt_oracle(c: &RtCase, rec: &Rec) -> R {
    let id = super::types::type_id(&c.ty).ok_or_else(|| Fail::new("harness/unknown-type", c.ty.clone()))?;
    let t = &registry()[id];
    let img = (t.honest)(c.seed);
    rec.eval(1);
    let re = (t.decode)(&img.bytes).map_err(|e| Fail::new(format!("C15/honest-value-undecodable/{}", c.ty), format!("an honestly produced {} does not decode: {}", c.ty, e)))?;
    ensure!(re == img.bytes, format!("C15/round-trip-differs/{}", c.ty), "encode(decode(encode(v))) differs from encode(v)");
    ensure!(decode_ref(&img, &img.bytes), "harness/reference-rejects-honest-value", "schema decoder rejects an honest {}", c.ty);
    rec.class(&format!("round-trip/{}", c.ty.split('<').next().unwrap_or(&c.ty)));
    rec.nontrivial((c.ty.clone(), c.seed));
    rec.sample("round-trip", || json!({"type": c.ty, "bytes": img.bytes.len(), "atoms": img.atoms.len()}));
    Ok(())
}

// ----------------------------------------------------- behaviour of decoded keys and parameters

#[derive(Clone, Debug, Serialize, Deserialize)]
pub struct BehCase {
    n_idx: u8,
    key: u8,
    msg: Vec<ScSpec>,
    seed: u64,
}

fn beh_strategy(_t: Tier) -> impl Strategy<Value = BehCase> {
    (0u8..6, 0u8..3, msg_specs(), any::<u64>()).prop_map(|(n_idx, key, msg, seed)| BehCase { n_idx, key, msg, seed })
}

fn beh_run<const N: usize>(c: &BehCase, rec: &Rec) -> R {
    let k = keys::<N>(c.key as u64);
    let kp2: KeyPair<N> = wire::dec(&k.img.bytes).map_err(|e| Fail::new("C15/honest-value-undecodable/KeyPair", e))?;
    let pk2: zkchannels_crypto::pointcheval_sanders::PublicKey<N> = wire::dec(&wire::enc(k.kp.public_key())).map_err(|e| Fail::new("C15/honest-value-undecodable/PublicKey", e))?;
    let m = scalars::<N>(&c.msg);
    let s_orig = Message::new(m).sign(&mut rng(c.seed), &k.kp);
    let s_copy = Message::new(m).sign(&mut rng(c.seed), &kp2);
    rec.eval(4);
    ensure!(wire::enc(&s_orig) == wire::enc(&s_copy), "C15/decoded-key-behaves-differently", "a decoded key pair signs differently under identical randomness");
    ensure!(
        s_copy.verify(k.kp.public_key(), &Message::new(m)) && s_orig.verify(&pk2, &Message::new(m)) && s_orig.verify(kp2.public_key(), &Message::new(m)),
        "C15/decoded-key-behaves-differently",
        "signatures do not verify across original and decoded keys"
    );
    ensure!(ps_verify(&PkAtoms::of(&pk2), &m, &s_copy.sigma1(), &s_copy.sigma2()), "C15/decoded-key-behaves-differently", "reference check fails for a signature by a decoded key");
    let mut m2 = m;
    m2[0] += Scalar::one();
    ensure!(!s_copy.verify(&pk2, &Message::new(m2)), "C15/decoded-key-behaves-differently", "decoded key verifies a signature on another message");
    rec.class(&format!("decoded-key/N={}", N));
    rec.nontrivial((N, c.key, c.msg[..N].to_vec()));
    Ok(())
}

fn beh_oracle(c: &BehCase, rec: &Rec) -> R {
    with_n!(n_of(c.n_idx), beh_run(c, rec))
}

// ------------------------------------------------------------------------ channel id text form

#[derive(Clone, Debug, Serialize, Deserialize)]
pub enum TextCase {
    Valid(Vec<u8>),
    WrongLength(Vec<u8>),
    BadChar(Vec<u8>, u8, u8),
    Garbage(String),
}

fn text_strategy(_t: Tier) -> impl Strategy<Value = TextCase> {
    prop_oneof![
        4 => proptest::collection::vec(any::<u8>(), 32).prop_map(TextCase::Valid),
        2 => proptest::collection::vec(any::<u8>(), 0..80).prop_filter("not 32", |v| v.len() != 32).prop_map(TextCase::WrongLength),
        2 => (proptest::collection::vec(any::<u8>(), 32), 0u8..43, any::<u8>()).prop_map(|(v, i, c)| TextCase::BadChar(v, i, c)),
        1 => "[ -~]{0,60}".prop_map(TextCase::Garbage),
    ]
}

/// `ChannelId::from_str`; a panic counts as "did not parse" here (that it must not happen is C16).
pub fn parse_cid(s: &str) -> Result<ChannelId, String> {
    match crate::engine::no_panic(|| ChannelId::from_str(s)) {
        Ok(r) => r.map_err(|e| e.to_string()),
        Err(p) => Err(format!("panicked: {}", p)),
    }
}

pub fn text_case_string(c: &TextCase) -> String {
    match c {
        TextCase::Valid(b) | TextCase::WrongLength(b) => base64::encode(b),
        TextCase::BadChar(b, i, ch) => {
            let mut s = base64::encode(b).into_bytes();
            let i = *i as usize % s.len();
            s[i] = *ch;
            String::from_utf8_lossy(&s).to_string()
        }
        TextCase::Garbage(s) => s.clone(),
    }
}

pub fn text_strategy_pub(t: Tier) -> impl Strategy<Value = TextCase> {
    text_strategy(t)
}

fn text_oracle(c: &TextCase, rec: &Rec) -> R {
    rec.eval(1);
    match c {
        TextCase::Valid(b) => {
            let id: ChannelId = wire::dec(b).map_err(|e| Fail::new("harness/channel-id", e))?;
            let s = id.to_string();
            ensure!(s == base64::encode(b), "C15/channel-id-text-not-base64", "Display is not the base64 of the bytes");
            let back = parse_cid(&s).map_err(|e| Fail::new("C15/channel-id-text-does-not-parse", e))?;
            ensure!(back.to_bytes().to_vec() == *b && back.to_string() == s, "C15/channel-id-text-round-trip", "printing and parsing a channel id changes it");
            rec.class("text/valid");
        }
        TextCase::WrongLength(b) => {
            ensure!(parse_cid(&base64::encode(b)).is_err(), "C15/channel-id-text-wrong-length-accepted", "a {}-byte base64 string parsed as a channel id", b.len());
            rec.class("text/wrong-length");
        }
        TextCase::BadChar(b, i, ch) => {
            let mut s = base64::encode(b).into_bytes();
            let i = *i as usize % s.len();
            s[i] = *ch;
            let text = String::from_utf8_lossy(&s).to_string();
            let reference = base64::decode(&text).ok().filter(|v| v.len() == 32);
            let got = parse_cid(&text).ok().map(|x| x.to_bytes().to_vec());
            ensure!(got == reference, "C15/channel-id-text-parse-disagrees", "parsing '{}' gave {:?}, base64 reference {:?}", text, got.is_some(), reference.is_some());
            rec.class(if reference.is_some() { "text/altered-still-valid" } else { "text/altered-invalid" });
        }
        TextCase::Garbage(s) => {
            let reference = base64::decode(s).ok().filter(|v| v.len() == 32);
            let got = parse_cid(s).ok().map(|x| x.to_bytes().to_vec());
            ensure!(got == reference, "C15/channel-id-text-parse-disagrees", "parsing arbitrary text disagrees with base64 reference");
            rec.class("text/garbage");
        }
    }
    rec.nontrivial(format!("{:?}", c));
    Ok(())
}

pub fn checks() -> Vec<CheckDef> {
    let mut v = checks_structured();
    #[cfg(feature = "full")]
    v.push(super::fuzzstage::check("C15", "decode_patched", "libfuzzer-decode-patched", 50_000));
    v
}

fn checks_structured() -> Vec<CheckDef> {
    vec![
        enum_check(
            "round-trip",
            "every serializable type of both crates (all N in {1,2,3,5,8,13}, protocol values reached in honest runs, public element codecs) x honest values from several seeds; oracle: decode succeeds, encode(decode(encode(v))) == encode(v), schema decoder accepts; behavioural equivalence of decoded proofs is exercised by C11 (its verifier calls run on decoded proofs) and of customer states by C20; distinct by (type, seed)",
            &[],
            false,
            rt_gen,
            rt_oracle,
        ),
        enum_check(
            "tampered-atoms",
            "enumerated (type, honest seed, atom position, entry of the invalid/boundary table for the atom kind): G1/G2 {identity, x>=p, x not on curve, on-curve point outside the subgroup, flag inconsistencies, all-ff, all-zero}, scalars {q, q+1, 2^256-1, 0, 1, q-1, close tag}, u64 {0, 2^63-1, 2^63, 2^63+1, 2^64-1}, i64 boundaries, bytes and enum tags, element-count prefixes of fixed-size arrays {count+1, +2, *2+1, +2^32, 2^63, 2^64-1, count-1, 0}; quick samples atom positions of big types, thorough enumerates all; oracle: decode Ok <=> independent schema decoder (kind validity + exactly the invariants the property lists, keyed by traced (type, field)) accepts, and Ok(v) re-encodes to the input bytes; distinct by (type, atom, entry)",
            &[],
            false,
            tamper_gen,
            tamper_oracle,
        ),
        prop_check(
            "decoded-keys-behave",
            "generated (N, key, message, seed): a key pair / public key decoded from its encoding signs identically under identical randomness and verifies the same signatures as the original (library and reference); distinct by case",
            &[],
            (120, 12_000),
            beh_strategy,
            beh_oracle,
        ),
        prop_check(
            "channel-id-text",
            "generated: 32-byte ids printed and parsed; base64 of other lengths; one character replaced; arbitrary printable text; oracle: Display == base64, parse(print(id)) == id, parse agrees with an independent base64 decode + length check; distinct by case",
            &["text/valid", "text/wrong-length"],
            (3000, 100_000),
            text_strategy,
            text_oracle,
        ),
    ]
}
