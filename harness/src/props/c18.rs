//! C18 — Pay tokens and closing signatures can never stand in for each other.

use super::common::*;
use crate::engine::refmath::{ps_verify, sha3};
use crate::engine::rng::{Pattern, ScriptedRng, Window};
use crate::engine::wire::{self, Image, Q_LE};
use crate::engine::{pick_idx, prop_check, CheckDef, Fail, Rec, Tier, R};
use crate::model::history::{amt_sel, bal_sel, AmtSel, BalSel, MAXB};
use crate::model::proto;
use bls12_381::Scalar;
use proptest::prelude::*;
use serde::{Deserialize, Serialize};
use serde_json::json;
use zkabacus_crypto::{
    customer::{Ready, Requested},
    ChannelId, CloseStateSignature, CustomerRandomness, MerchantRandomness, Nonce, CLOSE_SCALAR,
};

/// 64-byte little-endian encoding of CLOSE + j*q (reduces to the close tag in `from_bytes_wide`).
fn close_wide(j: u64) -> Vec<u8> {
    let close = CLOSE_SCALAR.to_bytes();
    let mut limbs = [0u64; 8];
    for i in 0..4 {
        limbs[i] = u64::from_le_bytes(close[8 * i..8 * i + 8].try_into().unwrap());
    }
    let q: Vec<u64> = (0..4).map(|i| u64::from_le_bytes(Q_LE[8 * i..8 * i + 8].try_into().unwrap())).collect();
    let mut carry: u128 = 0;
    for i in 0..8 {
        let prod = if i < 4 { q[i] as u128 * j as u128 } else { 0 };
        let t = limbs[i] as u128 + (prod & 0xffff_ffff_ffff_ffff) + carry;
        limbs[i] = t as u64;
        carry = (t >> 64) + (prod >> 64);
    }
    limbs.iter().flat_map(|l| l.to_le_bytes()).collect()
}

// ---------------------------------------------------------------------------------- (a) nonces

#[derive(Clone, Debug, Serialize, Deserialize, Hash, PartialEq, Eq)]
pub enum NonceScen {
    /// `internal::test_new_nonce` with the close tag injected at draws 0..width
    Generate { width: u8, j: u64 },
    /// `Requested::new` with the close tag injected at recorded 64-byte draw `draw`
    Requested { draw: u8, j: u64 },
    /// `Ready::start` with the close tag injected at recorded 64-byte draw `draw`
    Start { draw: u8, j: u64 },
    /// decode a 32-byte string as a nonce
    Decode(NonceBytes),
    /// a customer state with the nonce atom replaced
    Nested(u8, NonceBytes),
}

#[derive(Clone, Debug, Serialize, Deserialize, Hash, PartialEq, Eq)]
pub enum NonceBytes {
    Close,
    ClosePlus(i8),
    Canonical(u64),
    NonCanonical(u8),
    Raw(Vec<u8>),
}

impl NonceBytes {
    fn get(&self) -> Vec<u8> {
        match self {
            NonceBytes::Close => CLOSE_SCALAR.to_bytes().to_vec(),
            NonceBytes::ClosePlus(d) => {
                let d = if *d == 0 { 1 } else { *d };
                let s = if d > 0 { CLOSE_SCALAR + Scalar::from(d as u64) } else { CLOSE_SCALAR - Scalar::from((-(d as i64)) as u64) };
                s.to_bytes().to_vec()
            }
            NonceBytes::Canonical(s) => rand_scalar(*s).to_bytes().to_vec(),
            NonceBytes::NonCanonical(a) => {
                let mut b = Q_LE;
                b[0] = b[0].wrapping_add(*a % 200);
                b.to_vec()
            }
            NonceBytes::Raw(v) => v.clone(),
        }
    }
    fn label(&self) -> &'static str {
        match self {
            NonceBytes::Close => "close-tag",
            NonceBytes::ClosePlus(_) => "close-tag+-k",
            NonceBytes::Canonical(_) => "canonical",
            NonceBytes::NonCanonical(_) => "non-canonical",
            NonceBytes::Raw(_) => "raw",
        }
    }
}

#[derive(Clone, Debug, Serialize, Deserialize)]
pub struct NonceCase {
    scen: NonceScen,
    seed: u64,
}

fn nonce_strategy(_t: Tier) -> impl Strategy<Value = NonceCase> {
    let nb = || {
        prop_oneof![
            3 => Just(NonceBytes::Close),
            2 => any::<i8>().prop_map(NonceBytes::ClosePlus),
            2 => any::<u64>().prop_map(NonceBytes::Canonical),
            1 => any::<u8>().prop_map(NonceBytes::NonCanonical),
            1 => proptest::collection::vec(any::<u8>(), 32).prop_map(NonceBytes::Raw),
        ]
    };
    let j = || prop_oneof![3 => Just(0u64), 2 => 1u64..4, 1 => any::<u64>()];
    let scen = prop_oneof![
        30 => (1u8..4, j()).prop_map(|(width, j)| NonceScen::Generate { width, j }),
        6 => (0u8..14, j()).prop_map(|(draw, j)| NonceScen::Requested { draw, j }),
        1 => (0u8..6, j()).prop_map(|(draw, j)| NonceScen::Start { draw, j }),
        30 => nb().prop_map(NonceScen::Decode),
        6 => (0u8..5, nb()).prop_map(|(s, b)| NonceScen::Nested(s, b)),
    ];
    (scen, any::<u64>()).prop_map(|(scen, seed)| NonceCase { scen, seed })
}

fn scalar_draws(log: &[(usize, usize)]) -> Vec<(usize, usize)> {
    log.iter().copied().filter(|(_, l)| *l == 64).collect()
}

fn nonce_oracle(c: &NonceCase, rec: &Rec) -> R {
    let close = CLOSE_SCALAR.to_bytes().to_vec();
    match &c.scen {
        NonceScen::Generate { width, j } => {
            let pat = close_wide(*j);
            ensure!(Scalar::from_bytes_wide(&pat.clone().try_into().unwrap()) == CLOSE_SCALAR, "harness/close-pattern", "CLOSE + j*q does not reduce to the close tag");
            let mut base = ScriptedRng::new(c.seed, vec![]);
            let _ = zkabacus_crypto::internal::test_new_nonce(&mut base);
            let mut z = ScriptedRng::new(c.seed, vec![Window { off: 0, len: 64 * *width as usize, pat: Pattern::Bytes(pat) }]);
            let n = zkabacus_crypto::internal::test_new_nonce(&mut z);
            rec.eval(1);
            ensure!(wire::enc(&n) != close, "C18/generated-nonce-is-close-tag", "nonce generation returned the close tag under a stream whose sampled scalar is the close tag");
            ensure!(z.log.len() > base.log.len(), "harness/close-injection-missed", "the injected close tag did not cause a retry");
            rec.class("generate/close-injected-at-nonce-draw");
            rec.nontrivial(("generate", *width, *j, c.seed));
        }
        NonceScen::Requested { draw, j } | NonceScen::Start { draw, j } => {
            let is_start = matches!(c.scen, NonceScen::Start { .. });
            let m = proto::merchant(0);
            let cid = proto::channel_id(&m, c.seed);
            let ctx = proto::context(1);
            let ready: Option<Ready> = if is_start { Some(proto::establish(&m, &cid, 1000, 1000, &ctx, c.seed).ok_or_else(|| Fail::new("harness/establish-failed", "establish"))?.ready) } else { None };
            let ready_bytes = ready.as_ref().map(wire::enc);
            let run = |z: &mut ScriptedRng| -> Vec<u8> {
                if is_start {
                    let r: Ready = wire::dec(ready_bytes.as_ref().unwrap()).unwrap();
                    let (st, msg) = r.start(z, proto::amount(5), &ctx, &m.cust).ok().expect("start");
                    let mut b = wire::enc(&msg.nonce);
                    b.extend(Image::must(&st).get("new_state.nonce"));
                    b
                } else {
                    let (req, _) = Requested::new(z, &m.cust, cid, proto::mbal(7), proto::cbal(9), &ctx);
                    Image::must(&req).get("state.nonce").to_vec()
                }
            };
            let mut base = ScriptedRng::new(c.seed, vec![]);
            let _ = run(&mut base);
            let draws = scalar_draws(&base.log);
            let (off, len) = draws[*draw as usize % draws.len()];
            let mut z = ScriptedRng::new(c.seed, vec![Window { off, len, pat: Pattern::Bytes(close_wide(*j)) }]);
            let nonces = run(&mut z);
            rec.eval(1);
            for n in nonces.chunks(32) {
                ensure!(n != close.as_slice(), "C18/generated-nonce-is-close-tag", "{} produced a state whose nonce is the close tag", if is_start { "Ready::start" } else { "Requested::new" });
            }
            let retried = z.log.len() > base.log.len();
            rec.class(&format!("{}/{}", if is_start { "start" } else { "requested" }, if retried { "close-injected-at-nonce-draw" } else { "close-injected-at-other-draw" }));
            if retried {
                rec.nontrivial((is_start, *draw, *j, c.seed));
            }
        }
        NonceScen::Decode(nb) => {
            let b = nb.get();
            let expect = b.len() == 32 && wire::sc(&b).map(|s| s != CLOSE_SCALAR).unwrap_or(false);
            let got = wire::dec::<Nonce>(&b);
            rec.eval(1);
            if got.is_ok() != expect {
                return Err(Fail::new(
                    if expect { "C18/valid-nonce-refused" } else { "C18/invalid-nonce-decodes" },
                    format!("decoding a {} nonce returned ok={}, expected {}", nb.label(), got.is_ok(), expect),
                ));
            }
            if let Ok(n) = got {
                ensure!(wire::enc(&n) == b && wire::enc(&n) != close, "C18/decoded-nonce-is-close-tag", "a decoded nonce equals the close tag or re-encodes differently");
            }
            rec.class(&format!("decode/{}/{}", nb.label(), if expect { "accept" } else { "reject" }));
            rec.nontrivial(("decode", b));
        }
        NonceScen::Nested(stage, nb) => {
            let m = proto::merchant(0);
            let cid = proto::channel_id(&m, c.seed);
            let ctx = proto::context(1);
            let est = proto::establish(&m, &cid, 50, 60, &ctx, c.seed).ok_or_else(|| Fail::new("harness/establish-failed", "establish"))?;
            let b = nb.get();
            let expect = wire::sc(&b).map(|s| s != CLOSE_SCALAR).unwrap_or(false);
            macro_rules! nested {
                ($ty:ty, $val:expr, $path:expr, $name:expr) => {{
                    let img = Image::must(&$val);
                    let bytes = img.with($path, &b);
                    let got = wire::dec::<$ty>(&bytes);
                    rec.eval(1);
                    if got.is_ok() != expect {
                        return Err(Fail::new(
                            if expect { format!("C18/valid-state-refused/{}", $name) } else { format!("C18/state-with-close-tag-nonce-decodes/{}", $name) },
                            format!("decoding a {} whose nonce is {} returned ok={}", $name, nb.label(), got.is_ok()),
                        ));
                    }
                    rec.class(&format!("nested/{}/{}/{}", $name, nb.label(), if expect { "accept" } else { "reject" }));
                }};
            }
            match stage % 5 {
                0 => {
                    let r: Requested = wire::dec(&est.requested_bytes).unwrap();
                    nested!(Requested, r, "state.nonce", "Requested")
                }
                1 => nested!(Ready, est.ready, "state.nonce", "Ready"),
                2 => {
                    let (st, _) = proto::start(&m, est.ready, 3, &ctx, c.seed).ok_or_else(|| Fail::new("harness/start-failed", "start"))?;
                    nested!(zkabacus_crypto::customer::Started, st, "new_state.nonce", "Started.new_state")
                }
                3 => {
                    let (st, _) = proto::start(&m, est.ready, 3, &ctx, c.seed).ok_or_else(|| Fail::new("harness/start-failed", "start"))?;
                    nested!(zkabacus_crypto::customer::Started, st, "old_state.nonce", "Started.old_state")
                }
                _ => {
                    let (st, msg) = proto::start(&m, est.ready, 3, &ctx, c.seed).ok_or_else(|| Fail::new("harness/start-failed", "start"))?;
                    let (_, closing) = m.cfg.allow_payment(&mut rng(c.seed), proto::amount(3), &msg.nonce, msg.pay_proof, &ctx).ok_or_else(|| Fail::new("harness/allow-failed", "allow_payment"))?;
                    let (locked, _) = st.lock(closing, &m.cust).map_err(|_| Fail::new("harness/lock-failed", "lock"))?;
                    nested!(zkabacus_crypto::customer::Locked, locked, "state.nonce", "Locked")
                }
            }
            rec.nontrivial(("nested", *stage, b));
        }
    }
    rec.sample(&format!("{:?}", std::mem::discriminant(&c.scen)), || json!({"scenario": format!("{:?}", c.scen)}));
    Ok(())
}

// --------------------------------------------------------------------- (b) cross-presentation

#[derive(Clone, Debug, Serialize, Deserialize)]
pub struct CrossCase {
    cb: BalSel,
    mb: BalSel,
    pays: Vec<AmtSel>,
    seed: u64,
    deep: bool,
}

fn cross_strategy(t: Tier) -> impl Strategy<Value = CrossCase> {
    let deep_w = t.pick(4u32, 4u32);
    (bal_sel(), bal_sel(), proptest::collection::vec(amt_sel(), 0..3), any::<u64>(), prop_oneof![8 => Just(false), deep_w => Just(true)])
        .prop_map(|(cb, mb, pays, seed, deep)| CrossCase { cb, mb, pays, seed, deep })
}

fn cross_oracle(c: &CrossCase, rec: &Rec) -> R {
    let m = proto::merchant(c.seed % 2);
    let cid = proto::channel_id(&m, c.seed);
    let ctx = proto::context(c.seed & 0xff);
    let (mut cb, mut mb) = (c.cb.get(), c.mb.get());
    let mut ready = proto::establish(&m, &cid, cb, mb, &ctx, c.seed).ok_or_else(|| Fail::new("harness/establish-failed", "establish"))?.ready;
    let mut done = 0;
    for (i, a) in c.pays.iter().enumerate() {
        let amt = a.get(cb, mb);
        let (nc, nm) = (cb as i128 - amt, mb as i128 + amt);
        if amt.unsigned_abs() > MAXB as u128 || nc < 0 || nm < 0 || nc > MAXB as i128 || nm > MAXB as i128 {
            continue;
        }
        ready = proto::pay(&m, ready, amt as i64, &ctx, c.seed.wrapping_add(i as u64)).ok_or_else(|| Fail::new("harness/honest-payment-failed", format!("payment of {} on ({}, {})", amt, cb, mb)))?;
        cb = nc as u64;
        mb = nm as u64;
        done += 1;
    }
    let img = Image::must(&ready);
    let state_msg = proto::state_message(&img, "state", false);
    let close_msg = proto::state_message(&img, "state", true);
    ensure!(state_msg[1] != close_msg[1], "C18/state-and-close-state-share-slot-2", "the state's nonce equals the close tag");
    for k in [0usize, 2, 3, 4] {
        ensure!(state_msg[k] == close_msg[k], "harness/message-layout", "layouts differ outside slot 2");
    }
    let tok = (img.g1("pay_token.sigma1"), img.g1("pay_token.sigma2"));
    let cls = (img.g1("close_state_signature.sigma1"), img.g1("close_state_signature.sigma2"));
    // sanity: each verifies on its own message (reference)
    rec.eval(4);
    ensure!(ps_verify(&m.pk, &state_msg, &tok.0, &tok.1) && ps_verify(&m.pk, &close_msg, &cls.0, &cls.1), "harness/stored-signatures-invalid", "stored pay token / closing signature do not verify on their own messages");
    // cross (reference)
    ensure!(!ps_verify(&m.pk, &close_msg, &tok.0, &tok.1), "C18/pay-token-verifies-as-closing-signature", "the pay token verifies on the close-state message");
    ensure!(!ps_verify(&m.pk, &state_msg, &cls.0, &cls.1), "C18/closing-signature-verifies-as-pay-token", "the closing signature verifies on the state message");
    // cross (library): pay token re-labelled as closing signature, presented with the close state sharing its fields
    let cm = proto::copy(&ready).close(&mut rng(c.seed));
    let (_, close_state) = cm.into_parts();
    let relabelled: CloseStateSignature = wire::dec(&proto::sig_bytes(&tok.0, &tok.1)).map_err(|e| Fail::new("harness/relabel", e))?;
    rec.eval(1);
    ensure!(!proto::is_verified(m.cfg.check_close_signature(relabelled, &close_state)), "C18/pay-token-accepted-as-closing-signature", "check_close_signature accepted a pay token re-labelled as closing signature");
    rec.class("cross/token-as-closing-signature/refused");
    rec.class(&format!("payments-before/{}", done));
    if c.deep {
        // closing signature installed as pay token: start a payment with it; the merchant must refuse
        let mut forged = img.clone();
        forged.set("pay_token.sigma1", &cls.0.to_compressed());
        forged.set("pay_token.sigma2", &cls.1.to_compressed());
        let r: Ready = wire::dec(&forged.bytes).map_err(|e| Fail::new("harness/forged-ready-undecodable", e))?;
        if let Some((_, msg)) = proto::start(&m, r, 0, &ctx, c.seed) {
            rec.eval(1);
            let acc = m.cfg.allow_payment(&mut rng(c.seed), proto::amount(0), &msg.nonce, msg.pay_proof, &ctx).is_some();
            ensure!(!acc, "C18/closing-signature-accepted-as-pay-token", "allow_payment accepted a pay proof built on a closing signature installed as pay token");
            rec.class("cross/closing-signature-as-pay-token/refused");
        }
    }
    rec.nontrivial((c.cb.clone(), c.mb.clone(), c.pays.clone(), c.deep, c.seed));
    rec.sample(if c.deep { "deep" } else { "shallow" }, || json!({"cb": cb.to_string(), "mb": mb.to_string(), "payments": done, "deep": c.deep}));
    Ok(())
}

// ---------------------------------------------------------------------------- (c) channel ids

#[derive(Clone, Debug, Serialize, Deserialize)]
pub struct CidCase {
    mr: Vec<u8>,
    cr: Vec<u8>,
    key: u8,
    minfo: Vec<u8>,
    cinfo: Vec<u8>,
    change: CidChange,
}

#[derive(Clone, Debug, Serialize, Deserialize, Hash, PartialEq, Eq)]
pub enum CidChange {
    MerchantRandomness(u8, u8),
    CustomerRandomness(u8, u8),
    Key,
    MerchantInfoByte(u16, u8),
    MerchantInfoAppend(u8),
    MerchantInfoTruncate,
    CustomerInfoByte(u16, u8),
    CustomerInfoAppend(u8),
    CustomerInfoTruncate,
}

fn cid_strategy(_t: Tier) -> impl Strategy<Value = CidCase> {
    let b32 = || proptest::collection::vec(any::<u8>(), 32);
    let info = || proptest::collection::vec(any::<u8>(), 0..48);
    let change = prop_oneof![
        (0u8..32, 1u8..).prop_map(|(i, x)| CidChange::MerchantRandomness(i, x)),
        (0u8..32, 1u8..).prop_map(|(i, x)| CidChange::CustomerRandomness(i, x)),
        Just(CidChange::Key),
        (any::<u16>(), 1u8..).prop_map(|(i, x)| CidChange::MerchantInfoByte(i, x)),
        any::<u8>().prop_map(CidChange::MerchantInfoAppend),
        Just(CidChange::MerchantInfoTruncate),
        (any::<u16>(), 1u8..).prop_map(|(i, x)| CidChange::CustomerInfoByte(i, x)),
        any::<u8>().prop_map(CidChange::CustomerInfoAppend),
        Just(CidChange::CustomerInfoTruncate),
    ];
    (b32(), b32(), 0u8..3, info(), info(), change).prop_map(|(mr, cr, key, minfo, cinfo, change)| CidCase { mr, cr, key, minfo, cinfo, change })
}

fn cid_of(mr: &[u8], cr: &[u8], key: u64, minfo: &[u8], cinfo: &[u8]) -> (ChannelId, [u8; 32]) {
    let k = keys::<5>(key);
    let mrv: MerchantRandomness = wire::dec(mr).expect("32 bytes");
    let crv: CustomerRandomness = wire::dec(cr).expect("32 bytes");
    let id = ChannelId::new(mrv, crv, k.kp.public_key(), minfo, cinfo);
    // reference: SHA3-256 over the five inputs, the key as the concatenation of its elements
    let mut pkb = Vec::new();
    pkb.extend_from_slice(&k.pk.g1.to_compressed());
    for y in &k.pk.y1s {
        pkb.extend_from_slice(&y.to_compressed());
    }
    pkb.extend_from_slice(&k.pk.g2.to_compressed());
    pkb.extend_from_slice(&k.pk.x2.to_compressed());
    for y in &k.pk.y2s {
        pkb.extend_from_slice(&y.to_compressed());
    }
    (id, sha3(&[mr, cr, &pkb, minfo, cinfo]))
}

fn cid_oracle(c: &CidCase, rec: &Rec) -> R {
    let (id, reference) = cid_of(&c.mr, &c.cr, c.key as u64, &c.minfo, &c.cinfo);
    let (id2, _) = cid_of(&c.mr, &c.cr, c.key as u64, &c.minfo, &c.cinfo);
    rec.eval(2);
    ensure!(id.to_bytes() == id2.to_bytes(), "C18/channel-id-not-deterministic", "ChannelId::new differs on identical inputs");
    ensure!(id.to_bytes() == reference, "C18/channel-id-not-hash-of-inputs", "channel id is not SHA3-256 over (merchant randomness, customer randomness, key, merchant info, customer info)");
    let (mut mr, mut cr, mut key, mut mi, mut ci) = (c.mr.clone(), c.cr.clone(), c.key as u64, c.minfo.clone(), c.cinfo.clone());
    let label = match &c.change {
        CidChange::MerchantRandomness(i, x) => {
            mr[*i as usize] ^= x;
            "merchant-randomness"
        }
        CidChange::CustomerRandomness(i, x) => {
            cr[*i as usize] ^= x;
            "customer-randomness"
        }
        CidChange::Key => {
            key += 7;
            "key"
        }
        CidChange::MerchantInfoByte(i, x) if !mi.is_empty() => {
            let k = pick_idx(*i, mi.len());
            mi[k] ^= x;
            "merchant-info-byte"
        }
        CidChange::MerchantInfoByte(_, x) | CidChange::MerchantInfoAppend(x) => {
            mi.push(*x);
            "merchant-info-append"
        }
        CidChange::MerchantInfoTruncate if !mi.is_empty() => {
            mi.pop();
            "merchant-info-truncate"
        }
        CidChange::MerchantInfoTruncate => {
            mi.push(0);
            "merchant-info-append"
        }
        CidChange::CustomerInfoByte(i, x) if !ci.is_empty() => {
            let k = pick_idx(*i, ci.len());
            ci[k] ^= x;
            "customer-info-byte"
        }
        CidChange::CustomerInfoByte(_, x) | CidChange::CustomerInfoAppend(x) => {
            ci.push(*x);
            "customer-info-append"
        }
        CidChange::CustomerInfoTruncate if !ci.is_empty() => {
            ci.pop();
            "customer-info-truncate"
        }
        CidChange::CustomerInfoTruncate => {
            ci.push(0);
            "customer-info-append"
        }
    };
    let (changed, _) = cid_of(&mr, &cr, key, &mi, &ci);
    rec.eval(1);
    ensure!(changed.to_bytes() != id.to_bytes(), format!("C18/channel-id-ignores-input/{}", label), "changing the {} input leaves the channel id unchanged", label);
    rec.class(&format!("cid/{}", label));
    rec.nontrivial((c.mr.clone(), c.cr.clone(), c.key, c.minfo.clone(), c.cinfo.clone(), label));
    rec.sample(label, || json!({"changed_input": label, "merchant_info_len": c.minfo.len(), "customer_info_len": c.cinfo.len()}));
    Ok(())
}

pub fn checks() -> Vec<CheckDef> {
    vec![
        prop_check(
            "nonces",
            "generated scenarios: nonce generation (internal::test_new_nonce, Requested::new, Ready::start) under a scripted RNG that replays a PRNG stream with the 512-bit encoding of CLOSE + j*q injected at recorded 64-byte draws (pass 1 records the draw map); 32-byte strings {close tag, close tag +-k, canonical, non-canonical, raw} decoded as a nonce and nested as the nonce atom of Requested / Ready / Started (old and new) / Locked images; oracle: no produced or decoded nonce equals the close tag, decode Ok <=> canonical and != close tag; non-trivial = an injection that provably hit a nonce draw (retry visible in the draw log) or a decode case; distinct by case",
            &["generate/close-injected-at-nonce-draw", "requested/close-injected-at-nonce-draw", "decode/close-tag/reject", "nested/Ready/close-tag/reject"],
            (3000, 100_000),
            nonce_strategy,
            nonce_oracle,
        ),
        prop_check(
            "cross-presentation",
            "states reached by honest histories (initial balances lattice/random, 0-2 payments): the stored pay token and closing signature are cross-presented — reference pairing check of each on the other's message, the pay token re-labelled as closing signature to check_close_signature with the close state sharing its fields, and (deep cases) the closing signature installed as pay token in a Ready image -> start -> allow_payment; oracle: the two messages differ exactly in slot 2, every cross-presentation is refused; distinct by case",
            &["cross/token-as-closing-signature/refused", "cross/closing-signature-as-pay-token/refused"],
            (48, 4000),
            cross_strategy,
            cross_oracle,
        ),
        prop_check(
            "channel-id",
            "random 5-tuples (two 32-byte randomness values, key from a pool, two account-info strings of length 0-47) and one single-input change (one byte of either randomness, another key, one byte of an info string changed / appended / removed); oracle: deterministic, equals SHA3-256 over the five inputs (reference), and differs after the change; distinct by case",
            &["cid/key", "cid/merchant-randomness", "cid/customer-info-append"],
            (3000, 100_000),
            cid_strategy,
            cid_oracle,
        ),
    ]
}
