//! In-target oracles for the coverage-guided (libFuzzer) stage of C15 / C16.
//! Byte 0 selects the type (mod registry size), the rest is decoded. The semantic oracle lives
//! here, inside the target: no panic; `Ok(v)` ⇒ `encode(v)` is a prefix of the input and, for
//! fixed-layout types, the independent schema decoder accepts it; schema accept ⇒ `Ok`.

use super::c15::decode_ref;
use super::types::{honest_image, registry};

/// Types whose wire layout depends on a length taken from the input (no fixed atom template).
fn variable_layout(name: &str) -> bool {
    name.starts_with("codec Vec<") || name == "Error"
}

pub fn decode_any(data: &[u8]) {
    if data.is_empty() {
        return;
    }
    let reg = registry();
    let id = data[0] as usize % reg.len();
    let t = &reg[id];
    let bytes = &data[1..];
    let got = (t.decode)(bytes);
    if let Ok(re) = &got {
        assert!(bytes.starts_with(re), "C15/non-canonical-accepted: a decoded {} re-encodes to bytes that are not a prefix of the input", t.name);
    }
    if !variable_layout(&t.name) {
        let template = honest_image(id, 0);
        let expect = decode_ref(&template, bytes);
        assert!(
            got.is_ok() == expect,
            "C15/decoder-disagrees-with-schema: decoding a {} from {} bytes returned ok={}, the schema decoder says {}",
            t.name,
            bytes.len(),
            got.is_ok(),
            expect
        );
    }
}

/// Structure-aware variant: the input is (type byte, atom selector, replacement bytes); an honest
/// encoding of the type gets the selected atom overwritten by the (truncated / padded) bytes.
pub fn decode_patched(data: &[u8]) {
    if data.len() < 4 {
        return;
    }
    let reg = registry();
    let id = data[0] as usize % reg.len();
    let t = &reg[id];
    let img = honest_image(id, (data[1] % 2) as u64);
    if img.atoms.is_empty() {
        return;
    }
    let ai = u16::from_le_bytes([data[2], data[3]]) as usize % img.atoms.len();
    let a = &img.atoms[ai];
    let mut bytes = img.bytes.clone();
    for (k, b) in data[4..].iter().take(a.len).enumerate() {
        bytes[a.off + k] = *b;
    }
    let got = (t.decode)(&bytes);
    if let Ok(re) = &got {
        assert!(bytes.starts_with(re), "C15/non-canonical-accepted: a decoded {} re-encodes differently", t.name);
    }
    if !variable_layout(&t.name) && !matches!(a.kind, crate::engine::wire::Kind::Len(_)) {
        let expect = decode_ref(&img, &bytes);
        assert!(got.is_ok() == expect, "C15/decoder-disagrees-with-schema: {} atom '{}' patched: ok={}, schema says {}", t.name, a.path, got.is_ok(), expect);
    }
}
