//! C10 — Honest proofs and the documented constraint patterns always verify.

use super::c11::PKind;
use super::common::*;
use crate::engine::{pick_idx, prop_check, CheckDef, Fail, Rec, Tier, R};
use bls12_381::{G1Projective, G2Projective, Scalar};
use proptest::prelude::*;
use rand_chacha::ChaCha20Rng;
use serde::{Deserialize, Serialize};
use serde_json::json;
use std::collections::HashMap;
use std::sync::{Arc, Mutex, OnceLock};
use zkchannels_crypto::{
    pedersen::PedersenParameters,
    proofs::{
        Challenge, ChallengeBuilder, CommitmentProof, CommitmentProofBuilder, RangeConstraint,
        RangeConstraintBuilder, RangeConstraintParameters, SignatureProof, SignatureProofBuilder,
        SignatureRequestProof, SignatureRequestProofBuilder,
    },
    Message,
};

#[derive(Clone, Debug, Serialize, Deserialize, Hash, PartialEq, Eq)]
pub enum RangeVal {
    Zero,
    One,
    V127,
    V128,
    PowMinus1(u8),
    Pow(u8),
    PowPlus1(u8),
    Max,
    Rand(u64),
}

impl RangeVal {
    pub fn get(&self) -> i64 {
        match self {
            RangeVal::Zero => 0,
            RangeVal::One => 1,
            RangeVal::V127 => 127,
            RangeVal::V128 => 128,
            RangeVal::PowMinus1(k) => (1i64 << (7 * (1 + (*k as u32 % 8)))) - 1,
            RangeVal::Pow(k) => 1i64 << (7 * (1 + (*k as u32 % 8))),
            RangeVal::PowPlus1(k) => (1i64 << (7 * (1 + (*k as u32 % 8)))) + 1,
            RangeVal::Max => i64::MAX,
            RangeVal::Rand(s) => (*s >> 1) as i64,
        }
    }
    pub fn label(&self) -> &'static str {
        match self {
            RangeVal::Zero => "0",
            RangeVal::One => "1",
            RangeVal::V127 => "127",
            RangeVal::V128 => "128",
            RangeVal::PowMinus1(_) => "128^k-1",
            RangeVal::Pow(_) => "128^k",
            RangeVal::PowPlus1(_) => "128^k+1",
            RangeVal::Max => "2^63-1",
            RangeVal::Rand(_) => "random",
        }
    }
}

pub fn range_val() -> impl Strategy<Value = RangeVal> {
    prop_oneof![
        Just(RangeVal::Zero),
        Just(RangeVal::One),
        Just(RangeVal::V127),
        Just(RangeVal::V128),
        (0u8..8).prop_map(RangeVal::PowMinus1),
        (0u8..8).prop_map(RangeVal::Pow),
        (0u8..8).prop_map(RangeVal::PowPlus1),
        Just(RangeVal::Max),
        any::<u64>().prop_map(RangeVal::Rand),
    ]
}

#[derive(Clone, Debug, Serialize, Deserialize, Hash, PartialEq, Eq)]
pub enum SlotSpec {
    /// library-chosen commitment scalar
    Free(ScSpec),
    /// caller-chosen commitment scalar; the value is treated as public (partial opening)
    Chosen(ScSpec, ScSpec),
    /// equal to an earlier slot (same or earlier proof)
    EqualTo(u16),
    /// secret sum of two earlier slots
    SumOf(u16, u16),
    /// earlier slot + public value
    PlusPublic(u16, ScSpec),
    /// earlier slot * public value
    TimesPublic(u16, ScSpec),
    /// value in [0, 2^63) linked to a range constraint
    Range(RangeVal),
}

#[derive(Clone, Debug, Serialize, Deserialize)]
pub struct ProofSpec {
    kind: PKind,
    n_idx: u8,
    slots: Vec<SlotSpec>,
}

#[derive(Clone, Debug, Serialize, Deserialize)]
pub struct Case {
    proofs: Vec<ProofSpec>,
    key: u8,
    seed: u64,
}

fn slot_spec() -> impl Strategy<Value = SlotSpec> {
    prop_oneof![
        6 => sc_spec().prop_map(SlotSpec::Free),
        3 => (sc_spec(), sc_spec()).prop_map(|(v, s)| SlotSpec::Chosen(v, s)),
        3 => any::<u16>().prop_map(SlotSpec::EqualTo),
        2 => (any::<u16>(), any::<u16>()).prop_map(|(a, b)| SlotSpec::SumOf(a, b)),
        2 => (any::<u16>(), sc_spec()).prop_map(|(a, p)| SlotSpec::PlusPublic(a, p)),
        2 => (any::<u16>(), sc_spec()).prop_map(|(a, p)| SlotSpec::TimesPublic(a, p)),
        1 => range_val().prop_map(SlotSpec::Range),
    ]
}

fn strategy(_t: Tier) -> impl Strategy<Value = Case> {
    let kind = prop_oneof![Just(PKind::ComG1), Just(PKind::ComG2), Just(PKind::Sig), Just(PKind::Req)];
    let proof = (kind, 0u8..6, proptest::collection::vec(slot_spec(), 13)).prop_map(|(kind, n_idx, slots)| ProofSpec { kind, n_idx, slots });
    (proptest::collection::vec(proof, 1..4), 0u8..3, any::<u64>()).prop_map(|(proofs, key, seed)| Case { proofs, key, seed })
}

pub use super::common::range_params;

// ---- type-erased provers / proofs -------------------------------------------------------------

pub trait PB {
    fn feed(&self, cb: &mut ChallengeBuilder);
    fn cs(&self) -> Vec<Scalar>;
    fn respond(self: Box<Self>, c: Challenge) -> Box<dyn PF>;
}
pub trait PF {
    fn feed(&self, cb: &mut ChallengeBuilder);
    fn verify(&self, c: Challenge) -> bool;
    fn z(&self) -> Vec<Scalar>;
}

struct ComB<G: Grp, const N: usize>(CommitmentProofBuilder<G, N>, Arc<PedersenParameters<G, N>>);
struct ComF<G: Grp, const N: usize>(CommitmentProof<G, N>, Arc<PedersenParameters<G, N>>);
impl<G: Grp, const N: usize> PB for ComB<G, N> {
    fn feed(&self, cb: &mut ChallengeBuilder) {
        cb.consume(&self.0)
    }
    fn cs(&self) -> Vec<Scalar> {
        self.0.conjunction_commitment_scalars().to_vec()
    }
    fn respond(self: Box<Self>, c: Challenge) -> Box<dyn PF> {
        let s = *self;
        Box::new(ComF(s.0.generate_proof_response(c), s.1))
    }
}
impl<G: Grp, const N: usize> PF for ComF<G, N> {
    fn feed(&self, cb: &mut ChallengeBuilder) {
        cb.consume(&self.0)
    }
    fn verify(&self, c: Challenge) -> bool {
        self.0.verify_knowledge_of_opening(&self.1, c)
    }
    fn z(&self) -> Vec<Scalar> {
        self.0.conjunction_response_scalars().to_vec()
    }
}
struct SigB<const N: usize>(SignatureProofBuilder<N>, Arc<Keys<N>>);
struct SigF<const N: usize>(SignatureProof<N>, Arc<Keys<N>>);
impl<const N: usize> PB for SigB<N> {
    fn feed(&self, cb: &mut ChallengeBuilder) {
        cb.consume(&self.0)
    }
    fn cs(&self) -> Vec<Scalar> {
        self.0.conjunction_commitment_scalars().to_vec()
    }
    fn respond(self: Box<Self>, c: Challenge) -> Box<dyn PF> {
        let s = *self;
        Box::new(SigF(s.0.generate_proof_response(c), s.1))
    }
}
impl<const N: usize> PF for SigF<N> {
    fn feed(&self, cb: &mut ChallengeBuilder) {
        cb.consume(&self.0)
    }
    fn verify(&self, c: Challenge) -> bool {
        self.0.verify_knowledge_of_signature(self.1.kp.public_key(), c)
    }
    fn z(&self) -> Vec<Scalar> {
        self.0.conjunction_response_scalars().to_vec()
    }
}
struct ReqB<const N: usize>(SignatureRequestProofBuilder<N>, Arc<Keys<N>>);
struct ReqF<const N: usize>(SignatureRequestProof<N>, Arc<Keys<N>>);
impl<const N: usize> PB for ReqB<N> {
    fn feed(&self, cb: &mut ChallengeBuilder) {
        cb.consume(&self.0)
    }
    fn cs(&self) -> Vec<Scalar> {
        self.0.conjunction_commitment_scalars().to_vec()
    }
    fn respond(self: Box<Self>, c: Challenge) -> Box<dyn PF> {
        let s = *self;
        Box::new(ReqF(s.0.generate_proof_response(c), s.1))
    }
}
impl<const N: usize> PF for ReqF<N> {
    fn feed(&self, cb: &mut ChallengeBuilder) {
        cb.consume(&self.0)
    }
    fn verify(&self, c: Challenge) -> bool {
        self.0.verify_knowledge_of_opening(self.1.kp.public_key(), c).is_some()
    }
    fn z(&self) -> Vec<Scalar> {
        self.0.conjunction_response_scalars().to_vec()
    }
}

pub fn build_pub<const N: usize>(kind: PKind, key: u64, r: &mut ChaCha20Rng, m: &[Scalar], cs: &[Option<Scalar>]) -> Box<dyn PB> {
    let mut ma = [Scalar::zero(); N];
    ma.copy_from_slice(&m[..N]);
    let mut ca = [None; N];
    ca.copy_from_slice(&cs[..N]);
    match kind {
        PKind::ComG1 => {
            let p = Arc::new(PedersenParameters::<G1Projective, N>::new(&mut rng(0x5000 + key)));
            Box::new(ComB(CommitmentProofBuilder::generate_proof_commitments(r, Message::new(ma), &ca, &p), p))
        }
        PKind::ComG2 => {
            let p = Arc::new(PedersenParameters::<G2Projective, N>::new(&mut rng(0x6000 + key)));
            Box::new(ComB(CommitmentProofBuilder::generate_proof_commitments(r, Message::new(ma), &ca, &p), p))
        }
        PKind::Sig => {
            let k = keys::<N>(key);
            let sig = Message::new(ma).sign(r, &k.kp);
            Box::new(SigB(SignatureProofBuilder::generate_proof_commitments(r, Message::new(ma), sig, &ca, k.kp.public_key()), k))
        }
        PKind::Req => {
            let k = keys::<N>(key);
            Box::new(ReqB(SignatureRequestProofBuilder::generate_proof_commitments(r, Message::new(ma), &ca, k.kp.public_key()), k))
        }
    }
}

#[derive(Clone, Debug)]
enum Rel {
    Linear, // z = c*m + cs (always checked)
    Equal(usize),
    Sum(usize, usize),
    PlusPub(usize, Scalar),
    TimesPub(usize, Scalar),
    Range(usize), // index into range builders
}

fn oracle(c: &Case, rec: &Rec) -> R {
    let mut r = rng(c.seed);
    let rp = range_params(0);
    let mut m_all: Vec<Scalar> = Vec::new(); // message value per global slot
    let mut cs_all: Vec<Scalar> = Vec::new(); // actual commitment scalar per global slot (after build)
    let mut rels: Vec<Rel> = Vec::new();
    let mut chosen_public: Vec<bool> = Vec::new();
    let mut builders: Vec<Box<dyn PB>> = Vec::new();
    let mut range_builders: Vec<RangeConstraintBuilder> = Vec::new();
    let mut spans: Vec<(usize, usize)> = Vec::new(); // (first global slot, N) per proof
    let mut pattern_labels: Vec<&'static str> = Vec::new();
    let mut edge_linked = false;

    for ps in &c.proofs {
        let n = n_of(ps.n_idx);
        let base = m_all.len();
        let mut cs_req: Vec<Option<Scalar>> = vec![None; n];
        // first pass: values and relations
        for i in 0..n {
            let g = base + i;
            let (m, rel, public) = match &ps.slots[i] {
                SlotSpec::Free(v) => (v.get(), Rel::Linear, false),
                SlotSpec::Chosen(v, s) => {
                    cs_req[i] = Some(s.get());
                    pattern_labels.push("partial-opening");
                    edge_linked |= v.is_edge() || s.is_edge();
                    (v.get(), Rel::Linear, true)
                }
                SlotSpec::EqualTo(a) if g > 0 => {
                    let src = pick_idx(*a, g);
                    pattern_labels.push(if src >= base { "equality-within" } else { "equality-across" });
                    (m_all[src], Rel::Equal(src), false)
                }
                SlotSpec::SumOf(a, b) if g > 0 => {
                    let (s1, s2) = (pick_idx(*a, g), pick_idx(*b, g));
                    pattern_labels.push("secret-sum");
                    (m_all[s1] + m_all[s2], Rel::Sum(s1, s2), false)
                }
                SlotSpec::PlusPublic(a, p) if g > 0 => {
                    let src = pick_idx(*a, g);
                    pattern_labels.push("public-addition");
                    edge_linked |= p.is_edge();
                    (m_all[src] + p.get(), Rel::PlusPub(src, p.get()), false)
                }
                SlotSpec::TimesPublic(a, p) if g > 0 => {
                    let src = pick_idx(*a, g);
                    pattern_labels.push("public-product");
                    edge_linked |= p.is_edge();
                    (m_all[src] * p.get(), Rel::TimesPub(src, p.get()), false)
                }
                SlotSpec::Range(v) if range_builders.len() < 2 => {
                    let rb = RangeConstraintBuilder::generate_constraint_commitments(v.get(), &rp, &mut r)
                        .map_err(|e| Fail::new("C10/range-prover-refused-in-range-value", format!("{} for value {}", e, v.get())))?;
                    cs_req[i] = Some(rb.commitment_scalar());
                    range_builders.push(rb);
                    pattern_labels.push("range-link");
                    rec.class(&format!("range-value/{}", v.label()));
                    (Scalar::from(v.get() as u64), Rel::Range(range_builders.len() - 1), false)
                }
                SlotSpec::Range(v) => (Scalar::from(v.get() as u64), Rel::Linear, false),
                // first slot of the first proof cannot link to anything
                SlotSpec::EqualTo(_) | SlotSpec::SumOf(..) | SlotSpec::PlusPublic(..) | SlotSpec::TimesPublic(..) => (Scalar::from(g as u64), Rel::Linear, false),
            };
            m_all.push(m);
            rels.push(rel);
            chosen_public.push(public);
        }
        // second pass: commitment scalars the links require (sources are always earlier slots)
        for i in 0..n {
            let g = base + i;
            let mut need = |src: usize, cs_req: &mut Vec<Option<Scalar>>| -> Scalar {
                if src < base {
                    cs_all[src]
                } else {
                    // same proof: the source must carry a caller-chosen scalar (documented recipe)
                    *cs_req[src - base].get_or_insert_with(|| rand_scalar(c.seed ^ (src as u64).wrapping_mul(0x9e37)))
                }
            };
            match rels[g].clone() {
                Rel::Equal(s) => cs_req[i] = Some(need(s, &mut cs_req)),
                Rel::PlusPub(s, _) => cs_req[i] = Some(need(s, &mut cs_req)),
                Rel::TimesPub(s, p) => cs_req[i] = Some(need(s, &mut cs_req) * p),
                Rel::Sum(a, b) => {
                    let x = need(a, &mut cs_req);
                    let y = need(b, &mut cs_req);
                    cs_req[i] = Some(x + y);
                }
                _ => {}
            }
        }
        let b = with_n!(n, build_pub(ps.kind, c.key as u64, &mut r, &m_all[base..], &cs_req));
        let actual = b.cs();
        for i in 0..n {
            if let Some(want) = cs_req[i] {
                ensure!(
                    actual[i] == want,
                    "C10/caller-chosen-commitment-scalar-ignored",
                    "builder did not use the commitment scalar supplied for slot {} ({:?} N={})",
                    i,
                    ps.kind,
                    n
                );
            }
        }
        cs_all.extend(actual);
        builders.push(b);
        spans.push((base, n));
        rec.class(&format!("{:?}/N={}", ps.kind, n));
    }

    // challenge from the builders
    let mut cb = ChallengeBuilder::new();
    for b in &builders {
        b.feed(&mut cb);
    }
    for rb in &range_builders {
        cb.consume(rb);
    }
    let ch_b = cb.with_bytes(c.seed.to_le_bytes()).finish();

    let proofs: Vec<Box<dyn PF>> = builders.into_iter().map(|b| b.respond(ch_b)).collect();
    let ranges: Vec<RangeConstraint> = range_builders.into_iter().map(|rb| rb.generate_constraint_response(ch_b)).collect();

    let mut cp = ChallengeBuilder::new();
    for p in &proofs {
        p.feed(&mut cp);
    }
    for rc in &ranges {
        cp.consume(rc);
    }
    let ch_p = cp.with_bytes(c.seed.to_le_bytes()).finish();
    rec.eval(1);
    ensure!(
        ch_b.to_scalar() == ch_p.to_scalar(),
        "C10/builder-proof-challenge-differ",
        "challenge derived from the builders differs from the challenge derived from the finished proofs ({:?})",
        c.proofs.iter().map(|p| (p.kind, n_of(p.n_idx))).collect::<Vec<_>>()
    );

    let cs = ch_p.to_scalar();
    let mut z_all: Vec<Scalar> = Vec::new();
    for (pi, p) in proofs.iter().enumerate() {
        rec.eval(1);
        ensure!(
            p.verify(ch_p),
            format!("C10/honest-{:?}-proof-rejected", c.proofs[pi].kind),
            "honest {:?} proof (N={}) does not verify under the challenge derived from the finished proofs",
            c.proofs[pi].kind,
            spans[pi].1
        );
        z_all.extend(p.z());
    }
    for g in 0..m_all.len() {
        rec.eval(1);
        // r = c*v + s for every slot (this is the partial-opening check when the value is public)
        ensure!(
            z_all[g] == cs * m_all[g] + cs_all[g],
            if chosen_public[g] { "C10/partial-opening-relation" } else { "C10/response-relation" },
            "response scalar of slot {} is not c*m + commitment scalar",
            g
        );
        let (ok, sig) = match &rels[g] {
            Rel::Linear => (true, ""),
            Rel::Equal(s) => (z_all[g] == z_all[*s], "C10/equality-relation"),
            Rel::Sum(a, b) => (z_all[g] == z_all[*a] + z_all[*b], "C10/secret-sum-relation"),
            Rel::PlusPub(s, p) => (z_all[g] == z_all[*s] + cs * p, "C10/public-addition-relation"),
            Rel::TimesPub(s, p) => (z_all[g] == z_all[*s] * p, "C10/public-product-relation"),
            Rel::Range(ri) => (ranges[*ri].verify_range_constraint(&rp, ch_p, z_all[g]), "C10/honest-range-constraint-rejected"),
        };
        ensure!(ok, sig, "documented constraint pattern does not hold on the response scalars (slot {}, {:?})", g, rels[g]);
    }

    pattern_labels.sort();
    pattern_labels.dedup();
    for l in &pattern_labels {
        rec.class(&format!("pattern/{}", l));
    }
    if pattern_labels.is_empty() {
        rec.class("pattern/plain");
    }
    rec.class(&format!("proofs={}", c.proofs.len()));
    if c.proofs.len() >= 2 || edge_linked || !ranges.is_empty() {
        rec.nontrivial((
            c.proofs.iter().map(|p| (format!("{:?}", p.kind), n_of(p.n_idx), p.slots[..n_of(p.n_idx)].to_vec())).collect::<Vec<_>>(),
            c.key,
        ));
    }
    rec.sample(&format!("proofs={}/{}", c.proofs.len(), pattern_labels.join("+")), || {
        json!({"proofs": c.proofs.iter().map(|p| json!({"kind": format!("{:?}", p.kind), "N": n_of(p.n_idx),
              "slots": p.slots[..n_of(p.n_idx)].iter().map(|s| format!("{:?}", s)).collect::<Vec<_>>()})).collect::<Vec<_>>(),
              "patterns": pattern_labels})
    });
    Ok(())
}

pub fn checks() -> Vec<CheckDef> {
    vec![prop_check(
        "honest-patterns",
        "cases = scenario of 1-3 proofs among {CommitmentProof<G1|G2,N>, SignatureProof<N>, SignatureRequestProof<N>}, N in {1,2,3,5,8,13}; each message slot is one of {free, caller-chosen commitment scalar over {0,1,q-1,small,random} (partial opening), equal to an earlier slot (within / across proofs), secret sum of two earlier slots, earlier slot + public, earlier slot * public, range-linked value over {0,1,127,128,128^k-1,128^k,128^k+1,2^63-1,random}} built exactly as the module documentation prescribes; oracle (validity predicate): challenge(builders) == challenge(proofs), every verify_* true under it, r = c*v + s on every slot and the pattern's relation on conjunction_response_scalars, range constraint verifies against the linked response scalar; non-trivial = >=2 proofs, an edge scalar in a linked slot, or a range link; distinct by the full scenario",
        &["pattern/range-link", "pattern/equality-across", "pattern/secret-sum", "pattern/public-product", "pattern/public-addition", "pattern/partial-opening"],
        (640, 30_000),
        strategy,
        oracle,
    )]
}
