//! Coverage-guided stage (thorough tier of C15 and C16): runs the cargo-fuzz targets of
//! /verif/fuzz for a fixed number of executions from the honest corpus. The semantic oracle is
//! inside the targets (`props::fuzz`). The stage is a supplement to the structured checks: if the
//! nightly fuzz build is unavailable it is reported as skipped in the evidence, never as a pass
//! of something it did not run.

use crate::engine::{hex, no_panic, panic_sig, unhex, CheckDef, CheckSummary, Ctx, Fail, Stats, Tier, Violation, R};
use serde_json::{json, Value};
use std::path::PathBuf;
use std::process::Command;

fn run_target(ctx: &Ctx, prop: &'static str, target: &'static str, name: &'static str, runs: u64) {
    let work = ctx.out_dir.join("work");
    let corpus = work.join(format!("corpus-{}", target));
    let artifacts = work.join(format!("artifacts-{}", target));
    let _ = std::fs::remove_dir_all(&corpus);
    let _ = std::fs::remove_dir_all(&artifacts);
    let _ = std::fs::create_dir_all(&corpus);
    let _ = std::fs::create_dir_all(&artifacts);
    if target == "decode_any" {
        super::c16::gen_corpus_quiet(corpus.to_str().unwrap());
    } else {
        // (type, seed bit, atom selector, replacement) seeds
        for t in 0..super::types::registry().len().min(255) {
            let _ = std::fs::write(corpus.join(format!("seed-{:03}", t)), [t as u8, 0, 0, 0, 0xc0, 0, 0, 0]);
        }
    }
    let fuzz_dir = ctx.verif_dir.join("fuzz");
    // build once (from /repo's working tree, through the harness's path dependencies) ...
    let mut build = Command::new("cargo");
    build
        .arg("+nightly")
        .arg("fuzz")
        .arg("build")
        .arg("--fuzz-dir")
        .arg(&fuzz_dir)
        .arg("-s")
        .arg("none")
        .arg(target)
        .env("CARGO_NET_OFFLINE", "true")
        .env_remove("CARGO_TARGET_DIR")
        .current_dir(&fuzz_dir);
    let bin = fuzz_dir.join("target/x86_64-unknown-linux-gnu/release").join(target);
    match build.output() {
        Ok(o) if o.status.success() && bin.exists() => {}
        Ok(o) => {
            let text = String::from_utf8_lossy(&o.stderr).to_string();
            let tail: String = text.lines().rev().take(6).collect::<Vec<_>>().join(" | ");
            ctx.assume(&format!("libFuzzer stage '{}' skipped: fuzz build failed ({})", target, tail.chars().take(300).collect::<String>()));
            return;
        }
        Err(e) => {
            ctx.assume(&format!("libFuzzer stage '{}' skipped: cannot start cargo fuzz ({})", target, e));
            return;
        }
    }
    // ... then PROCS independent libFuzzer processes on the shared corpus directory, each with
    // its own seed and `runs` executions
    const PROCS: u64 = 12;
    let children: Vec<_> = (0..PROCS)
        .filter_map(|i| {
            Command::new(&bin)
                .arg(&corpus)
                .arg(format!("-runs={}", runs))
                .arg(format!("-seed={}", ((ctx.seed.wrapping_mul(PROCS) + i) % 0x7fff_fffe) + 1))
                .arg("-max_len=14000")
                .arg("-len_control=0")
                .arg("-rss_limit_mb=4096")
                .arg("-malloc_limit_mb=512")
                .arg("-print_final_stats=1")
                .arg(format!("-artifact_prefix={}/", artifacts.display()))
                .current_dir(&work)
                .stdout(std::process::Stdio::null())
                .stderr(std::fs::File::create(work.join(format!("fuzz-{}-{}.log", target, i))).map(std::process::Stdio::from).unwrap_or_else(|_| std::process::Stdio::null()))
                .spawn()
                .ok()
                .map(|c| (i, c))
        })
        .collect();
    if children.is_empty() {
        ctx.assume(&format!("libFuzzer stage '{}' skipped: cannot start the fuzz binary", target));
        return;
    }
    let mut executed = 0u64;
    let mut text = String::new();
    for (i, mut ch) in children {
        if ch.wait().is_ok() {
            let t = std::fs::read(work.join(format!("fuzz-{}-{}.log", target, i))).map(|b| String::from_utf8_lossy(&b).to_string()).unwrap_or_default();
            executed += t
                .lines()
                .rev()
                .find_map(|l| l.split_once("stat::number_of_executed_units").and_then(|(_, v)| v.trim().trim_start_matches(':').trim().split_whitespace().next().and_then(|x| x.parse::<u64>().ok())))
                .unwrap_or(0);
            text.push_str(&t);
        }
    }
    if executed == 0 && !text.contains("SUMMARY") && !text.contains("panicked") {
        let tail: String = text.lines().rev().take(6).collect::<Vec<_>>().join(" | ");
        ctx.assume(&format!("libFuzzer stage '{}' skipped: fuzz start failed ({})", target, tail.chars().take(300).collect::<String>()));
        return;
    }
    let cov = text.lines().rev().find_map(|l| l.split("cov: ").nth(1).and_then(|v| v.split_whitespace().next()).and_then(|x| x.parse::<u64>().ok())).unwrap_or(0);
    let corpus_files = std::fs::read_dir(&corpus).map(|d| d.count()).unwrap_or(0) as u64;
    let mut stats = Stats::default();
    stats.evals = executed;
    stats.cases = executed;
    stats.classes.insert("executions".into(), executed);
    stats.classes.insert("corpus-inputs-with-new-coverage".into(), corpus_files);
    stats.notes.insert("edge-coverage".into(), cov);
    // distinct non-trivial = inputs libFuzzer kept because they reached new coverage
    let mut names: Vec<PathBuf> = std::fs::read_dir(&corpus).map(|d| d.filter_map(|e| e.ok()).map(|e| e.path()).collect()).unwrap_or_default();
    names.sort();
    for (i, p) in names.iter().enumerate() {
        stats.nontrivial.insert(i as u64 ^ 0xf022);
        if i < 3 {
            if let Ok(b) = std::fs::read(p) {
                stats.samples.entry("corpus-input".into()).or_default().push(json!({"target": target, "len": b.len(), "head_hex": hex(&b[..b.len().min(24)])}));
            }
        }
    }
    // crashes
    let crashes: Vec<PathBuf> = std::fs::read_dir(&artifacts).map(|d| d.filter_map(|e| e.ok()).map(|e| e.path()).collect()).unwrap_or_default();
    for c in crashes.iter().take(4) {
        if let Ok(bytes) = std::fs::read(c) {
            let case = json!({"target": target, "input_hex": hex(&bytes)});
            let fail = match replay_case(&case) {
                Err(f) => f,
                Ok(()) => Fail::new(format!("{}/fuzz-artifact-not-reproducible-in-process", prop), format!("libFuzzer saved {} but the input passes in-process (out-of-memory or timeout in the fuzzer?)", c.display())),
            };
            let mut v = ctx.violations.lock().unwrap();
            if !v.iter().any(|x| x.fail.sig == fail.sig) {
                v.push(Violation { check: name.to_string(), fail, case, shard: 0 });
            }
        }
    }
    ctx.summaries.lock().unwrap().push(CheckSummary {
        name: name.to_string(),
        kind: "coverage-guided",
        exhaustive: false,
        rule: format!("libFuzzer target {} (12 parallel processes x {} executions from the honest-encoding corpus, seeds from VERIF_SEED; only approximately reproducible — the saved input is the reproducible unit); in-target oracle: no panic, Ok(v) => encode(v) is a prefix of the input, decoder acceptance == independent schema decoder; non-trivial = inputs kept for new coverage", target, runs),
        stats,
        required: vec![],
    });
}

fn replay_case(case: &Value) -> R {
    let bytes = unhex(case["input_hex"].as_str().unwrap_or(""));
    let target = case["target"].as_str().unwrap_or("decode_any").to_string();
    match no_panic(|| {
        if target == "decode_patched" {
            super::fuzz::decode_patched(&bytes)
        } else {
            super::fuzz::decode_any(&bytes)
        }
    }) {
        Ok(()) => Ok(()),
        Err(d) => {
            // assertion messages of the in-target oracle start with the property signature
            let sig = if d.starts_with("C15/") { d.split(':').next().unwrap_or("C15/fuzz").to_string() } else { format!("C16/panic/{}", panic_sig(&d)) };
            Err(Fail::new(sig, format!("fuzz input ({} bytes, target {}): {}", bytes.len(), target, d)))
        }
    }
}

pub fn check(prop: &'static str, target: &'static str, name: &'static str, runs: u64) -> CheckDef {
    CheckDef {
        name,
        run: Box::new(move |ctx: &Ctx| {
            if ctx.tier == Tier::Thorough {
                run_target(ctx, prop, target, name, runs);
            }
        }),
        replay: Box::new(move |_ctx: &Ctx, v: &Value| replay_case(v)),
    }
}
