pub fn worker_main() {}
pub fn gen_corpus(_dir: &str) {}
