//! C16 — Decoding untrusted bytes never panics, aborts or over-allocates.
//! Cases are decoded in isolated worker processes (`zkverif decode-worker`) under a tracking
//! allocator; a worker death is attributed to the in-flight case and the worker is respawned.

use super::common::*;
use super::types::{honest_image, registry, type_id};
use crate::engine::alloc;
use crate::engine::wire::{self, Image, Kind};
use crate::engine::{enum_check, no_panic, panic_sig, CheckDef, Ctx, Fail, Rec, Tier, R};
use serde::{Deserialize, Serialize};
use serde_json::json;
use proptest::strategy::Strategy;
use std::cell::RefCell;
use std::io::{Read, Write};
use std::process::{Child, ChildStdin, ChildStdout, Command, Stdio};

// ------------------------------------------------------------------------------------ worker

pub fn worker_main() {
    let reg = registry();
    let stdin = std::io::stdin();
    let stdout = std::io::stdout();
    let mut inp = stdin.lock();
    let mut out = stdout.lock();
    loop {
        let mut hdr = [0u8; 8];
        if inp.read_exact(&mut hdr).is_err() {
            return;
        }
        let tid = u32::from_le_bytes(hdr[..4].try_into().unwrap()) as usize;
        let len = u32::from_le_bytes(hdr[4..].try_into().unwrap()) as usize;
        let mut bytes = vec![0u8; len];
        if inp.read_exact(&mut bytes).is_err() {
            return;
        }
        let mut msg = String::new();
        alloc::arm();
        let r = no_panic(|| (reg[tid].decode)(&bytes).is_ok());
        let (mx, tot) = alloc::disarm();
        let status: u8 = match r {
            Ok(true) => 0,
            Ok(false) => 1,
            Err(d) => {
                msg = d;
                2
            }
        };
        let mut resp = vec![status];
        resp.extend_from_slice(&(mx as u64).to_le_bytes());
        resp.extend_from_slice(&(tot as u64).to_le_bytes());
        resp.extend_from_slice(&(msg.len() as u32).to_le_bytes());
        resp.extend_from_slice(msg.as_bytes());
        if out.write_all(&resp).is_err() || out.flush().is_err() {
            return;
        }
    }
}

struct Worker {
    child: Child,
    stdin: ChildStdin,
    stdout: ChildStdout,
}

impl Worker {
    fn spawn() -> std::io::Result<Worker> {
        let exe = std::env::current_exe()?;
        let mut child = Command::new(exe).arg("decode-worker").stdin(Stdio::piped()).stdout(Stdio::piped()).stderr(Stdio::null()).spawn()?;
        let stdin = child.stdin.take().unwrap();
        let stdout = child.stdout.take().unwrap();
        Ok(Worker { child, stdin, stdout })
    }
}

impl Drop for Worker {
    fn drop(&mut self) {
        let _ = self.child.kill();
        let _ = self.child.wait();
    }
}

pub enum Outcome {
    Ok { accepted: bool, max_req: u64, total: u64 },
    Panic { msg: String, max_req: u64 },
    Died { status: String },
}

thread_local! {
    static WORKER: RefCell<Option<Worker>> = RefCell::new(None);
}

/// Decode `bytes` as type `tid` in this thread's worker process.
pub fn decode_isolated(tid: usize, bytes: &[u8]) -> Result<Outcome, String> {
    WORKER.with(|w| {
        let mut w = w.borrow_mut();
        if w.is_none() {
            *w = Some(Worker::spawn().map_err(|e| format!("cannot spawn decode worker: {}", e))?);
        }
        let wk = w.as_mut().unwrap();
        let mut req = Vec::with_capacity(8 + bytes.len());
        req.extend_from_slice(&(tid as u32).to_le_bytes());
        req.extend_from_slice(&(bytes.len() as u32).to_le_bytes());
        req.extend_from_slice(bytes);
        let io = (|| -> std::io::Result<Outcome> {
            wk.stdin.write_all(&req)?;
            wk.stdin.flush()?;
            let mut hdr = [0u8; 21];
            wk.stdout.read_exact(&mut hdr)?;
            let mx = u64::from_le_bytes(hdr[1..9].try_into().unwrap());
            let tot = u64::from_le_bytes(hdr[9..17].try_into().unwrap());
            let ml = u32::from_le_bytes(hdr[17..21].try_into().unwrap()) as usize;
            let mut msg = vec![0u8; ml];
            wk.stdout.read_exact(&mut msg)?;
            Ok(match hdr[0] {
                0 => Outcome::Ok { accepted: true, max_req: mx, total: tot },
                1 => Outcome::Ok { accepted: false, max_req: mx, total: tot },
                _ => Outcome::Panic { msg: String::from_utf8_lossy(&msg).to_string(), max_req: mx },
            })
        })();
        match io {
            Ok(o) => Ok(o),
            Err(_) => {
                // the worker died while decoding this case
                let status = wk.child.wait().map(|s| format!("{}", s)).unwrap_or_else(|e| e.to_string());
                *w = None;
                Ok(Outcome::Died { status })
            }
        }
    })
}

// ------------------------------------------------------------------------------------- cases

#[derive(Clone, Debug, Serialize, Deserialize, Hash, PartialEq, Eq)]
pub enum Mut {
    Honest,
    Len { atom: usize, value: u64 },
    Table { atom: usize, entry: usize },
    RandomAtom { atom: usize, seed: u64 },
    Truncate { at: usize },
    Extend { n: usize, seed: u64 },
    Small { atom: usize, value: u32 },
    Random { len: usize, seed: u64 },
    PrefixRandom { keep: usize, len: usize, seed: u64 },
}

#[derive(Clone, Debug, Serialize, Deserialize)]
pub struct Case {
    ty: String,
    seed: u64,
    m: Mut,
}

fn rand_bytes(seed: u64, len: usize) -> Vec<u8> {
    use rand_core::RngCore;
    let mut v = vec![0u8; len];
    rng(seed).fill_bytes(&mut v);
    v
}

fn apply(img: &Image, m: &Mut) -> Vec<u8> {
    match m {
        Mut::Honest => img.bytes.clone(),
        Mut::Len { atom, value } => img.with_at(*atom, &value.to_le_bytes()),
        Mut::Table { atom, entry } => {
            let t = wire::bad_table(img.atoms[*atom].kind);
            img.with_at(*atom, &t[*entry % t.len()].bytes)
        }
        Mut::RandomAtom { atom, seed } => img.with_at(*atom, &rand_bytes(*seed, img.atoms[*atom].len)),
        Mut::Truncate { at } => img.bytes[..(*at).min(img.bytes.len())].to_vec(),
        Mut::Extend { n, seed } => {
            let mut b = img.bytes.clone();
            b.extend(rand_bytes(*seed, *n));
            b
        }
        Mut::Small { atom, value } => {
            let a = &img.atoms[*atom];
            let v: Vec<u8> = match a.len {
                1 => vec![*value as u8],
                4 => value.to_le_bytes().to_vec(),
                _ => (*value as u64).to_le_bytes().to_vec(),
            };
            img.with_at(*atom, &v)
        }
        Mut::Random { len, seed } => rand_bytes(*seed, *len),
        Mut::PrefixRandom { keep, len, seed } => {
            let mut b = img.bytes[..(*keep).min(img.bytes.len())].to_vec();
            b.extend(rand_bytes(*seed, *len));
            b
        }
    }
}

fn label(img: &Image, m: &Mut) -> String {
    match m {
        Mut::Honest => "honest".into(),
        Mut::Len { atom, value } => {
            let n = match img.atoms[*atom].kind {
                Kind::Len(n) => n,
                _ => 0,
            };
            let v = *value;
            format!(
                "length-prefix/{}",
                if v == 0 { "0".to_string() } else if v == n.wrapping_sub(1) { "n-1".into() } else if v == n + 1 { "n+1".into() } else if v == 1 << 32 { "2^32".into() } else if v == 1 << 60 { "2^60".into() } else if v == u64::MAX { "2^64-1".into() } else { "other".into() }
            )
        }
        Mut::Table { atom, .. } => format!("atom-invalid-table/{:?}", img.atoms[*atom].kind),
        Mut::RandomAtom { atom, .. } => format!("atom-random/{:?}", img.atoms[*atom].kind),
        Mut::Truncate { .. } => "truncated".into(),
        Mut::Extend { .. } => "extended".into(),
        Mut::Small { .. } => "tag-or-byte".into(),
        Mut::Random { .. } => "random-string".into(),
        Mut::PrefixRandom { .. } => "honest-prefix+random".into(),
    }
}

const RAND_LENS: [usize; 20] = [0, 1, 7, 8, 9, 15, 16, 31, 32, 33, 47, 48, 49, 95, 96, 97, 200, 1000, 4096, 16384];

fn gen(ctx: &Ctx) -> Vec<Case> {
    let mut out = Vec::new();
    let quick = ctx.tier == Tier::Quick;
    let seeds: Vec<u64> = if quick { vec![ctx.seed % 4] } else { vec![0, 1, 2, 3] };
    let mut ctr = ctx.seed.wrapping_mul(0x9e37_79b9_7f4a_7c15);
    let mut next = || {
        ctr = ctr.wrapping_mul(6364136223846793005).wrapping_add(1442695040888963407);
        ctr
    };
    for (id, t) in registry().iter().enumerate() {
        for &seed in &seeds {
            let img = honest_image(id, seed);
            let n = img.atoms.len();
            let mut push = |m: Mut| out.push(Case { ty: t.name.clone(), seed, m });
            push(Mut::Honest);
            // quick: a spread of atom positions for the big types; all length prefixes always
            let keep = |ai: usize, cap: usize| !quick || n <= cap || ai < 4 || ai + 4 >= n || (ai.wrapping_mul(2654435761) ^ (ctx.seed as usize)) % n < cap;
            for (ai, a) in img.atoms.iter().enumerate() {
                match a.kind {
                    Kind::Len(k) => {
                        for v in [0u64, k.wrapping_sub(1), k + 1, 1 << 32, 1 << 60, u64::MAX] {
                            push(Mut::Len { atom: ai, value: v });
                        }
                        if !quick {
                            for v in [2 * k + 1, (1 << 31) - 1, 1 << 40, (1 << 63) - 1, 1 << 63] {
                                push(Mut::Len { atom: ai, value: v });
                            }
                        }
                    }
                    Kind::G1 | Kind::G2 | Kind::B32 | Kind::U64 | Kind::I64 => {
                        if keep(ai, 24) {
                            for e in 0..wire::bad_table(a.kind).len() {
                                push(Mut::Table { atom: ai, entry: e });
                            }
                            for _ in 0..if quick { 1 } else { 4 } {
                                push(Mut::RandomAtom { atom: ai, seed: next() });
                            }
                        }
                    }
                    Kind::Tag | Kind::U8 | Kind::Bool => {
                        for v in [0u32, 1, 2, 3, 127, 128, 255, u32::MAX] {
                            push(Mut::Small { atom: ai, value: v });
                        }
                    }
                }
                if keep(ai, 16) {
                    // truncation at the atom boundary and inside the atom
                    push(Mut::Truncate { at: a.off });
                    push(Mut::Truncate { at: a.off + a.len / 2 });
                    if a.len > 1 {
                        push(Mut::Truncate { at: a.off + a.len - 1 });
                    }
                }
            }
            for k in [1usize, 7, 8, 64] {
                push(Mut::Extend { n: k, seed: next() });
            }
            for &l in RAND_LENS.iter() {
                for _ in 0..if quick { 1 } else { 6 } {
                    push(Mut::Random { len: l, seed: next() });
                }
            }
            for _ in 0..if quick { 3 } else { 24 } {
                let keepn = (next() as usize) % (img.bytes.len() + 1);
                push(Mut::PrefixRandom { keep: keepn, len: (next() as usize) % 200, seed: next() });
            }
        }
    }
    out
}

pub fn alloc_bound(input_len: usize) -> u64 {
    65536 + 32 * input_len as u64
}

fn oracle(c: &Case, rec: &Rec) -> R {
    let id = type_id(&c.ty).ok_or_else(|| Fail::new("harness/unknown-type", c.ty.clone()))?;
    let img = honest_image(id, c.seed);
    let bytes = apply(&img, &c.m);
    let lab = label(&img, &c.m);
    let out = decode_isolated(id, &bytes).map_err(|e| Fail::new("harness/decode-worker", e))?;
    rec.eval(1);
    let short = c.ty.split('<').next().unwrap_or(&c.ty).to_string();
    match out {
        Outcome::Panic { msg, .. } => {
            return Err(Fail::new(format!("C16/panic/{}", panic_sig(&msg)), format!("decoding a {} from a {} input ({} bytes) panicked: {}", c.ty, lab, bytes.len(), msg)).obs("panic", "Ok or Err"));
        }
        Outcome::Died { status } => {
            return Err(Fail::new(format!("C16/abort/{}", lab), format!("the process decoding a {} from a {} input ({} bytes) died: {}", c.ty, lab, bytes.len(), status)).obs("process death", "Ok or Err"));
        }
        Outcome::Ok { accepted, max_req, total } => {
            let bound = alloc_bound(bytes.len());
            if max_req > bound {
                return Err(Fail::new(
                    format!("C16/over-allocation/{}", lab.split('/').next().unwrap_or(&lab)),
                    format!("decoding a {} from a {} input of {} bytes requested a single allocation of {} bytes (bound {}; total {})", c.ty, lab, bytes.len(), max_req, bound, total),
                )
                .obs(max_req.to_string(), format!("<= {}", bound)));
            }
            if matches!(c.m, Mut::Honest) {
                ensure!(accepted, format!("C16/honest-value-undecodable/{}", short), "an honest {} does not decode", c.ty);
                rec.note("max-single-allocation-honest", 0);
            }
            rec.class(&format!("{}/{}", lab, if accepted { "ok" } else { "err" }));
        }
    }
    if !matches!(c.m, Mut::Honest) {
        rec.nontrivial((c.ty.clone(), c.seed, format!("{:?}", c.m)));
    }
    rec.sample(&lab, || json!({"type": c.ty, "mutation": format!("{:?}", c.m), "input_len": bytes.len()}));
    Ok(())
}

pub fn checks() -> Vec<CheckDef> {
    let mut v = checks_structured();
    #[cfg(feature = "full")]
    v.push(super::fuzzstage::check("C16", "decode_any", "libfuzzer-decode-any", 100_000));
    v
}

// ------------------------------------------------------------------- channel id text decoder

#[derive(Clone, Debug, Serialize, Deserialize)]
pub enum CidText {
    /// the shapes C15 uses (valid, wrong length <80 bytes, one altered character, printable garbage)
    Shape(super::c15::TextCase),
    /// base64 of a payload of any length, optionally with the padding stripped or extra '=' added
    Payload(Vec<u8>, u8),
    /// an honest 32-byte id's text followed by more base64 characters
    Extended(Vec<u8>, Vec<u8>),
    /// arbitrary unicode
    Unicode(String),
}

fn cid_strategy(t: Tier) -> impl Strategy<Value = CidText> {
    use proptest::prelude::*;
    let long = t.pick(2048usize, 16 * 1024);
    prop_oneof![
        3 => super::c15::text_strategy_pub(t).prop_map(CidText::Shape),
        3 => (proptest::collection::vec(any::<u8>(), 0..160), 0u8..4).prop_map(|(v, p)| CidText::Payload(v, p)),
        1 => (proptest::collection::vec(any::<u8>(), 160..long), 0u8..4).prop_map(|(v, p)| CidText::Payload(v, p)),
        2 => (proptest::collection::vec(any::<u8>(), 32), proptest::collection::vec(any::<u8>(), 1..64)).prop_map(|(a, b)| CidText::Extended(a, b)),
        1 => ".{0,80}".prop_map(CidText::Unicode),
    ]
}

fn cid_oracle(c: &CidText, rec: &Rec) -> R {
    use std::str::FromStr;
    let (text, class) = match c {
        CidText::Shape(tc) => (super::c15::text_case_string(tc), "shape"),
        CidText::Payload(v, pad) => {
            let mut s = base64::encode(v);
            match pad % 4 {
                1 => s = s.trim_end_matches('=').to_string(),
                2 => s.push('='),
                3 => s.push_str("=="),
                _ => {}
            }
            (s, if v.len() > 32 { "payload>32" } else if v.len() == 32 { "payload=32" } else { "payload<32" })
        }
        CidText::Extended(a, b) => (format!("{}{}", base64::encode(a).trim_end_matches('='), base64::encode(b)), "honest+suffix"),
        CidText::Unicode(s) => (s.clone(), "unicode"),
    };
    rec.eval(1);
    let r = no_panic(|| zkabacus_crypto::ChannelId::from_str(&text).map(|id| id.to_bytes()));
    match r {
        Err(p) => Err(Fail::new(format!("C16/panic/channel-id-text/{}", panic_sig(&p)), format!("parsing a {}-character channel-id string panicked: {}", text.len(), p)).obs("panic", "a value or an error")),
        Ok(res) => {
            rec.class(&format!("cid-text/{}/{}", class, if res.is_ok() { "ok" } else { "err" }));
            rec.nontrivial(text.clone());
            rec.sample(&format!("cid-text/{}", class), || json!({"length": text.len(), "class": class, "parsed": res.is_ok()}));
            Ok(())
        }
    }
}

fn checks_structured() -> Vec<CheckDef> {
    vec![crate::engine::prop_check(
        "channel-id-text",
        "cases = strings given to ChannelId::from_str: base64 of payloads of 0-160 bytes (and up to 16 KiB) with padding kept / stripped / extended, an honest id's text followed by further base64 groups, one altered character, printable garbage, arbitrary unicode; oracle: the call returns Ok or Err - no panic (allocation is not measured here: the decoder's requests are bounded by the string it is given); non-trivial = every case; distinct by string",
        &["cid-text/payload>32/err", "cid-text/honest+suffix/err", "cid-text/shape/ok"],
        (4000, 200_000),
        cid_strategy,
        cid_oracle,
    ), enum_check(
        "decode-robustness",
        "enumerated mutations of honest encodings of every Deserialize type of both crates and the public element codecs (all N): every length-prefix position x {0, n-1, n+1, 2^32, 2^60, 2^64-1}; atoms x invalid-encoding table and random bytes; truncation at and inside atom boundaries; extension by 1-64 bytes; tag / byte atoms x small values; random strings of length 0-16 KiB; honest prefix + random tail (quick samples atom positions of big types, thorough enumerates all); each case decoded in an isolated worker process under a tracking allocator; oracle: the worker returns Ok or Err - no panic (caught, message reported), no process death, largest single allocation request <= 64 KiB + 32*len(input); distinct by (type, mutation)",
        &["length-prefix/n+1/err", "length-prefix/2^60/err", "truncated/err", "random-string/err"],
        false,
        gen,
        oracle,
    )]
}

pub fn gen_corpus_quiet(dir: &str) {
    let _ = std::fs::create_dir_all(dir);
    for (id, t) in registry().iter().enumerate() {
        let img = honest_image(id, 0);
        let mut b = vec![id as u8];
        b.extend_from_slice(&img.bytes);
        let _ = std::fs::write(format!("{}/{:03}-{}", dir, id, t.name.replace(|c: char| !c.is_ascii_alphanumeric(), "_")), b);
    }
}

/// Honest encodings of every type, prefixed by the type id byte, as a libFuzzer seed corpus.
pub fn gen_corpus(dir: &str) {
    let _ = std::fs::create_dir_all(dir);
    for (id, t) in registry().iter().enumerate() {
        for seed in 0..2u64 {
            let img = honest_image(id, seed);
            let mut b = vec![id as u8];
            b.extend_from_slice(&img.bytes);
            let name = format!("{}/{:03}-{}-{}", dir, id, t.name.replace(|c: char| !c.is_ascii_alphanumeric(), "_"), seed);
            let _ = std::fs::write(name, b);
        }
    }
    println!("wrote corpus for {} types to {}", registry().len(), dir);
}
