//! C17 — Balance and amount arithmetic is total, exact and range-preserving.

use super::common::*;
use crate::engine::refmath::{i128_scalar, u64_scalar};
use crate::engine::wire;
use crate::engine::{enum_check, no_panic, panic_sig, prop_check, CheckDef, Ctx, Fail, Rec, Tier, R};
use crate::model::history::{amt_sel, bal_sel, AmtSel, BalSel, MAXB};
use crate::model::proto;
use proptest::prelude::*;
use serde::{Deserialize, Serialize};
use serde_json::json;
use zkabacus_crypto::{verif_hooks as vh, CustomerBalance, Error, MerchantBalance, PaymentAmount};

#[derive(Clone, Debug, Serialize, Deserialize)]
pub struct Case {
    cb: u64,
    mb: u64,
    amt: i64,
}

const U_LATTICE: [u64; 11] = [0, 1, 2, 1 << 31, 1 << 32, 1 << 62, MAXB - 1, MAXB, 1 << 63, (1 << 63) + 1, u64::MAX];

fn i_lattice() -> Vec<i64> {
    let mut v: Vec<i64> = vec![i64::MIN, i64::MIN + 1];
    for u in U_LATTICE {
        if u <= MAXB {
            v.push(u as i64);
            v.push(-(u as i64));
        }
    }
    v.sort();
    v.dedup();
    v
}

fn lattice_gen(_ctx: &Ctx) -> Vec<Case> {
    let mut out = Vec::new();
    for cb in U_LATTICE {
        for mb in U_LATTICE {
            for amt in i_lattice() {
                out.push(Case { cb, mb, amt });
            }
        }
    }
    out
}

fn random_strategy(_t: Tier) -> impl Strategy<Value = Case> {
    let b = || prop_oneof![3 => any::<u64>(), 2 => (any::<u64>()).prop_map(|x| x >> 1), 1 => (any::<u64>(), 0u32..64).prop_map(|(x, s)| x >> s)];
    let a = prop_oneof![3 => any::<i64>(), 1 => (any::<i64>(), 0u32..63).prop_map(|(x, s)| x >> s)];
    (b(), b(), a).prop_map(|(cb, mb, amt)| Case { cb, mb, amt })
}

fn guard<T>(op: &str, f: impl FnOnce() -> T) -> Result<T, Fail> {
    no_panic(f).map_err(|d| Fail::new(format!("C17/panic/{}/{}", op, panic_sig(&d)), format!("{} panicked: {}", op, d)))
}

fn err_is(e: &Error, too_large: Option<u64>) -> bool {
    match (e, too_large) {
        (Error::AmountTooLarge(v), Some(x)) => *v == x,
        (Error::InsufficientFunds, None) => true,
        _ => false,
    }
}

fn oracle(c: &Case, rec: &Rec) -> R {
    let max = MAXB as i128;
    // ---- constructors ------------------------------------------------------------------------
    let cbr = guard("CustomerBalance::try_new", || CustomerBalance::try_new(c.cb))?;
    let mbr = guard("MerchantBalance::try_new", || MerchantBalance::try_new(c.mb))?;
    rec.eval(2);
    for (name, v, ok, inner, err) in [
        ("CustomerBalance", c.cb, cbr.is_ok(), cbr.as_ref().ok().map(|b| b.into_inner()), cbr.as_ref().err().copied()),
        ("MerchantBalance", c.mb, mbr.is_ok(), mbr.as_ref().ok().map(|b| b.into_inner()), mbr.as_ref().err().copied()),
    ] {
        ensure!(ok == (v <= MAXB), format!("C17/{}-constructor-bound", name), "{}::try_new({}) ok={}", name, v, ok);
        if ok {
            ensure!(inner == Some(v), format!("C17/{}-constructor-value", name), "{}::try_new({}) holds {:?}", name, v, inner);
        } else {
            ensure!(err_is(&err.unwrap(), Some(v)), format!("C17/{}-constructor-error", name), "{}::try_new({}) returned {:?}", name, v, err);
        }
    }
    // amount constructors on the magnitude
    let mag = c.amt.unsigned_abs();
    for (name, r, sign) in [
        ("pay_merchant", guard("PaymentAmount::pay_merchant", || PaymentAmount::pay_merchant(mag))?, 1i128),
        ("pay_customer", guard("PaymentAmount::pay_customer", || PaymentAmount::pay_customer(mag))?, -1i128),
    ] {
        rec.eval(1);
        ensure!(r.is_ok() == (mag <= MAXB), format!("C17/{}-bound", name), "{}({}) ok={}", name, mag, r.is_ok());
        match r {
            Ok(a) => ensure!(a.to_i64() as i128 == sign * mag as i128, format!("C17/{}-value", name), "{}({}) = {}", name, mag, a.to_i64()),
            Err(e) => ensure!(err_is(&e, Some(mag)), format!("C17/{}-error", name), "{}({}) returned {:?}", name, mag, e),
        }
    }
    // every i64 is a decodable amount
    let amount: PaymentAmount = wire::dec(&c.amt.to_le_bytes()).map_err(|e| Fail::new("C17/amount-undecodable", e))?;
    ensure!(amount.to_i64() == c.amt, "C17/decoded-amount-value", "decoded amount {} reports {}", c.amt, amount.to_i64());

    // ---- scalar encoding of the amount (must not panic for any decodable amount) ---------------
    let a_sc = guard("PaymentAmount::to_scalar", || vh::amount_scalar(amount))?;
    rec.eval(1);
    ensure!(a_sc == i128_scalar(c.amt as i128), "C17/amount-scalar-encoding", "scalar encoding of amount {} is not its residue mod q", c.amt);

    // balances that exist in a program: built by the constructor, or obtained by decoding
    let cbal: Option<CustomerBalance> = cbr.ok().or_else(|| wire::dec(&c.cb.to_le_bytes()).ok());
    let mbal: Option<MerchantBalance> = mbr.ok().or_else(|| wire::dec(&c.mb.to_le_bytes()).ok());
    if c.cb > MAXB && cbal.is_some() || c.mb > MAXB && mbal.is_some() {
        rec.class("balance-above-2^63-1-obtained-by-decoding");
    }
    let (Some(cbal), Some(mbal)) = (cbal, mbal) else {
        rec.class("balance-not-representable");
        rec.nontrivial((c.cb, c.mb, c.amt));
        return Ok(());
    };
    ensure!(
        guard("CustomerBalance::to_scalar", || vh::customer_balance_scalar(cbal))? == u64_scalar(c.cb) && guard("MerchantBalance::to_scalar", || vh::merchant_balance_scalar(mbal))? == u64_scalar(c.mb),
        "C17/balance-scalar-encoding",
        "scalar encoding of a balance is not the integer"
    );

    // ---- apply -----------------------------------------------------------------------------
    let (rc, rm) = guard("apply", || vh::apply(cbal, mbal, amount))?;
    rec.eval(2);
    let nc = c.cb as i128 - c.amt as i128;
    let nm = c.mb as i128 + c.amt as i128;
    for (name, r, want, old_sc, minus) in [
        ("customer", rc.map(|b| (b.into_inner(), vh::customer_balance_scalar(b))), nc, u64_scalar(c.cb), true),
        ("merchant", rm.map(|b| (b.into_inner(), vh::merchant_balance_scalar(b))), nm, u64_scalar(c.mb), false),
    ] {
        let in_range = want >= 0 && want <= max;
        match r {
            Ok((v, sc)) => {
                ensure!(in_range, format!("C17/apply-accepts-out-of-range/{}", name), "apply gave {} balance {} for ({}, {}, {}), exact result {}", name, v, c.cb, c.mb, c.amt, want);
                ensure!(v as i128 == want, format!("C17/apply-inexact/{}", name), "apply gave {} balance {}, exact result {}", name, v, want);
                // enc(b) -/+ enc(a) = enc(b -/+ a)
                let lhs = if minus { old_sc - a_sc } else { old_sc + a_sc };
                ensure!(lhs == sc, format!("C17/encoding-not-homomorphic/{}", name), "enc(balance) -/+ enc(amount) != enc(new balance) for ({}, {}, {})", c.cb, c.mb, c.amt);
            }
            Err(e) => {
                ensure!(!in_range, format!("C17/apply-refuses-in-range/{}", name), "apply refused ({}, {}, {}) for the {} although the result {} is in range: {:?}", c.cb, c.mb, c.amt, name, want, e);
                let want_err = if want < 0 { None } else { Some(want as u64) };
                ensure!(err_is(&e, want_err), format!("C17/apply-wrong-error/{}", name), "apply returned {:?} for exact result {}", e, want);
            }
        }
    }

    // ---- try_add ---------------------------------------------------------------------------
    let sum = c.cb as u128 + c.mb as u128;
    let r = guard("MerchantBalance::try_add", || mbal.try_add(cbal))?;
    rec.eval(1);
    match r {
        Ok(v) => ensure!(sum <= MAXB as u128 && v.into_inner() as u128 == sum, "C17/try_add-wrong", "try_add({}, {}) = {}", c.mb, c.cb, v.into_inner()),
        Err(e) => ensure!(sum > MAXB as u128 && (sum > u64::MAX as u128 || err_is(&e, Some(sum as u64))), "C17/try_add-wrong", "try_add({}, {}) returned {:?}", c.mb, c.cb, e),
    }

    let boundary = U_LATTICE.contains(&c.cb) || U_LATTICE.contains(&c.mb) || i_lattice().contains(&c.amt);
    rec.class(if nc >= 0 && nc <= max && nm >= 0 && nm <= max { "apply/in-range" } else { "apply/out-of-range" });
    if c.amt == i64::MIN {
        rec.class("amount/i64::MIN");
    }
    if boundary {
        rec.nontrivial((c.cb, c.mb, c.amt));
    }
    rec.sample(if boundary { "lattice" } else { "random" }, || json!({"cb": c.cb.to_string(), "mb": c.mb.to_string(), "amount": c.amt.to_string(), "new_cb": nc.to_string(), "new_mb": nm.to_string()}));
    Ok(())
}

// ---- behavioural half: boundary payments through the protocol, any decodable amount at the merchant

#[derive(Clone, Debug, Serialize, Deserialize)]
pub struct PayCase {
    cb: BalSel,
    mb: BalSel,
    amount: AmtSel,
    probe: i64,
    seed: u64,
}

fn pay_strategy(_t: Tier) -> impl Strategy<Value = PayCase> {
    let probe = prop_oneof![
        3 => Just(i64::MIN),
        1 => Just(i64::MIN + 1),
        1 => Just(i64::MAX),
        1 => Just(-1i64),
        1 => Just(0i64),
        2 => any::<i64>(),
    ];
    (bal_sel(), bal_sel(), amt_sel().prop_filter("boundary amounts", |a| a.is_boundary()), probe, any::<u64>())
        .prop_map(|(cb, mb, amount, probe, seed)| PayCase { cb, mb, amount, probe, seed })
}

fn pay_oracle(c: &PayCase, rec: &Rec) -> R {
    let m = proto::merchant(0);
    let (cb, mb) = (c.cb.get(), c.mb.get());
    let amt = c.amount.get(cb, mb);
    let cid = proto::channel_id(&m, c.seed);
    let ctx = proto::context(c.seed & 0xff);
    let est = proto::establish(&m, &cid, cb, mb, &ctx, c.seed).ok_or_else(|| Fail::new("C17/honest-establish-failed", format!("establishment failed for balances ({}, {})", cb, mb)))?;
    if amt.unsigned_abs() > MAXB as u128 {
        rec.class("amount-not-representable");
        return Ok(());
    }
    let amt = amt as i64;
    let nc = cb as i128 - amt as i128;
    let nm = mb as i128 + amt as i128;
    let in_range = nc >= 0 && nc <= MAXB as i128 && nm >= 0 && nm <= MAXB as i128;
    let started = guard("Ready::start", || proto::start(&m, est.ready, amt, &ctx, c.seed))?;
    rec.eval(1);
    ensure!(started.is_some() == in_range, "C17/start-disagrees-with-integer-arithmetic", "start on ({}, {}) with amount {}: started={}, exact arithmetic in range={}", cb, mb, amt, started.is_some(), in_range);
    let Some((st, msg)) = started else {
        rec.class(&format!("boundary-payment/{}/refused", c.amount.label()));
        return Ok(());
    };
    // any decodable amount at the merchant: no panic, and only the agreed amount is accepted
    let probe_amt: PaymentAmount = wire::dec(&c.probe.to_le_bytes()).unwrap();
    let proof_copy = proto::copy(&msg.pay_proof);
    let r = guard("allow_payment(decoded amount)", || m.cfg.allow_payment(&mut rng(c.seed), probe_amt, &msg.nonce, proof_copy, &ctx).is_some())?;
    rec.eval(1);
    ensure!(r == (c.probe == amt), "C17/allow_payment-under-other-amount", "allow_payment with amount {} on a proof for amount {} returned accepted={}", c.probe, amt, r);
    // the honest amount is accepted: the scalar encoding agrees on both sides at the boundary
    let ok = guard("allow_payment", || m.cfg.allow_payment(&mut rng(c.seed), proto::amount(amt), &msg.nonce, msg.pay_proof, &ctx).is_some())?;
    rec.eval(1);
    ensure!(ok, "C17/boundary-payment-rejected", "merchant rejected an honest payment of {} on balances ({}, {})", amt, cb, mb);
    ensure!(st.customer_balance().into_inner() == cb, "C17/started-balance", "Started reports another pre-payment balance");
    rec.class(&format!("boundary-payment/{}/accepted", c.amount.label()));
    rec.class(&format!("probe/{}", if c.probe == i64::MIN { "i64::MIN" } else { "other" }));
    rec.nontrivial((c.cb.clone(), c.mb.clone(), c.amount.clone(), c.probe));
    rec.sample(c.amount.label(), || json!({"cb": cb.to_string(), "mb": mb.to_string(), "amount": amt.to_string(), "probe_amount": c.probe.to_string()}));
    Ok(())
}

pub fn checks() -> Vec<CheckDef> {
    vec![
        enum_check(
            "lattice",
            "exhaustive: all (customer balance, merchant balance, amount) triples over the u64 lattice {0,1,2,2^31,2^32,2^62,2^63-2,2^63-1,2^63,2^63+1,2^64-1}^2 x its signed counterparts incl. i64::MIN (amounts built by the constructors AND decoded from the wire; balances above 2^63-1 used only if the decoder hands them out); oracle = i128 reference: constructors succeed <=> value <= 2^63-1 and return it, else the documented error; apply / try_add succeed <=> result in [0, 2^63-1] and are exact, negative => InsufficientFunds, above => AmountTooLarge(result); scalar encodings equal the residues and enc(b) -/+ enc(a) = enc(b -/+ a); nothing panics (overflow checks on); distinct triples",
            &["amount/i64::MIN"],
            true,
            lattice_gen,
            oracle,
        ),
        prop_check(
            "random",
            "random 64-bit triples (mixed widths), same oracle as the lattice check",
            &[],
            (200_000, 100_000_000),
            random_strategy,
            oracle,
        ),
        prop_check(
            "boundary-payments",
            "generated (initial balances lattice/random, boundary amount selector resolved against them, probe amount among {i64::MIN, i64::MIN+1, i64::MAX, -1, 0, random}); oracle: start succeeds <=> exact integer result in range; the merchant accepts the honest boundary payment (scalar encoding consistent on both sides); allow_payment called with any decodable amount returns without panicking and accepts only the agreed amount; distinct by case",
            &["probe/i64::MIN"],
            (112, 4000),
            pay_strategy,
            pay_oracle,
        ),
    ]
}
