//! zkverif — property-based testing / fuzzing harness for libzkchannels-crypto.
//!   zkverif <ID> quick|thorough
//!   zkverif replay <path>
use zkverif::{engine, props};

use engine::{Ctx, Fail, Known, Tier};

#[global_allocator]
static GLOBAL: engine::alloc::Track = engine::alloc::Track;
use std::path::PathBuf;
use std::sync::Mutex;
use std::time::Instant;

fn usage() -> ! {
    eprintln!("usage: zkverif <ID> quick|thorough | replay <path> | list");
    std::process::exit(2)
}

fn make_ctx(prop: &str, tier: Tier, seed: u64) -> Ctx {
    let verif_dir = PathBuf::from(std::env::var("ZKVERIF_DIR").unwrap_or_else(|_| "/verif".into()));
    let out_dir = std::env::var("ZKVERIF_OUT")
        .map(PathBuf::from)
        .unwrap_or_else(|_| verif_dir.clone());
    Ctx {
        prop: prop.to_string(),
        tier,
        seed,
        known: Known::load(&verif_dir.join("known_findings.txt")),
        verif_dir,
        out_dir,
        start: Instant::now(),
        summaries: Mutex::new(Vec::new()),
        violations: Mutex::new(Vec::new()),
        inconclusive: Mutex::new(Vec::new()),
        assumptions: Mutex::new(Vec::new()),
        strict_replay: false,
    }
}

fn watchdog(secs: u64, prop: String) {
    std::thread::spawn(move || {
        std::thread::sleep(std::time::Duration::from_secs(secs));
        println!("INCONCLUSIVE property={} watchdog expired after {} s", prop, secs);
        std::process::exit(2);
    });
}

fn main() {
    let args: Vec<String> = std::env::args().skip(1).collect();
    if args.is_empty() {
        usage();
    }
    engine::install_panic_hook();
    let seed: u64 = std::env::var("VERIF_SEED")
        .ok()
        .and_then(|s| s.trim().parse::<i128>().ok())
        .map(|v| v as u64)
        .unwrap_or(1);

    match args[0].as_str() {
        "list" => {
            for (id, _) in props::all() {
                println!("{}", id);
            }
        }
        "decode-worker" => props::c16::worker_main(),
        "gen-corpus" => {
            let dir = args.get(1).cloned().unwrap_or_else(|| "/verif/work/corpus".into());
            props::c16::gen_corpus(&dir);
        }
        "replay" => {
            let path = args.get(1).cloned().unwrap_or_else(|| usage());
            let body = std::fs::read_to_string(&path).unwrap_or_else(|e| {
                println!("INCONCLUSIVE cannot read {}: {}", path, e);
                std::process::exit(2)
            });
            let v: serde_json::Value = serde_json::from_str(&body).unwrap_or_else(|e| {
                println!("INCONCLUSIVE cannot parse {}: {}", path, e);
                std::process::exit(2)
            });
            let prop = v["property"].as_str().unwrap_or("").to_string();
            let check = v["check"].as_str().unwrap_or("").to_string();
            let tier = if v["tier"].as_str() == Some("thorough") { Tier::Thorough } else { Tier::Quick };
            let rseed = v["seed"].as_u64().unwrap_or(seed);
            let ctx = make_ctx(&prop, tier, rseed);
            let defs = props::all()
                .into_iter()
                .find(|(id, _)| *id == prop)
                .map(|(_, f)| f())
                .unwrap_or_default();
            match defs.iter().find(|d| d.name == check) {
                None => {
                    println!("INCONCLUSIVE unknown check {}/{}", prop, check);
                    std::process::exit(2);
                }
                Some(d) => match (d.replay)(&ctx, &v["case"]) {
                    Ok(()) => {
                        println!("REPLAY-PASS property={} check={}", prop, check);
                    }
                    Err(Fail { sig, msg, observed, expected }) => {
                        println!("VIOLATION property={} replay={}", prop, path);
                        println!("  check={} signature={}\n  {}\n  observed: {}\n  expected: {}", check, sig, msg, observed, expected);
                        std::process::exit(1);
                    }
                },
            }
        }
        id => {
            let tier = match args.get(1).map(|s| s.as_str()).or(std::env::var("VERIF_TIER").ok().as_deref()) {
                Some("thorough") => Tier::Thorough,
                Some("quick") | None => Tier::Quick,
                _ => usage(),
            };
            let only: Option<String> = std::env::var("ZKVERIF_ONLY").ok();
            let Some((_, defs)) = props::all().into_iter().find(|(p, _)| *p == id) else {
                println!("INCONCLUSIVE unknown property {}", id);
                std::process::exit(2);
            };
            watchdog(tier.pick(20 * 60, 6 * 3600), id.to_string());
            let ctx = make_ctx(id, tier, seed);
            // schema self-test: a drift of names or codecs under the harness is never a pass
            if let Err(e) = engine::no_panic(props::common::schema_selftest) {
                println!("INCONCLUSIVE property={} schema-drift: {}", id, e);
                std::process::exit(2);
            }
            let defs = defs();
            // seconds-long replay tier: stored regression inputs first
            let rdir = ctx.verif_dir.join("regress").join(id);
            let mut files: Vec<_> = std::fs::read_dir(&rdir)
                .map(|it| it.filter_map(|e| e.ok()).map(|e| e.path()).collect())
                .unwrap_or_default();
            files.sort();
            let mut regress_fail = false;
            for f in files {
                if f.extension().and_then(|e| e.to_str()) != Some("json") {
                    continue;
                }
                let Ok(body) = std::fs::read_to_string(&f) else { continue };
                let Ok(v) = serde_json::from_str::<serde_json::Value>(&body) else { continue };
                let check = v["check"].as_str().unwrap_or("");
                if let Some(d) = defs.iter().find(|d| d.name == check) {
                    if let Err(fl) = (d.replay)(&ctx, &v["case"]) {
                        if let Some(text) = ctx.known.is_open(id, &fl.sig) {
                            println!("KNOWN-FINDING: property={} signature={} (regress input {}) {}", id, fl.sig, f.display(), text);
                        } else {
                            println!("VIOLATION property={} replay={}", id, f.display());
                            println!("  check={} signature={}\n  {}", check, fl.sig, fl.msg);
                            regress_fail = true;
                        }
                    }
                }
            }
            for d in &defs {
                if let Some(o) = &only {
                    if !o.split(',').any(|x| x == d.name) {
                        continue;
                    }
                }
                // a panic outside a case (while building generators / cached honest values) is a
                // harness-level failure: INCONCLUSIVE, never a crash of the check
                if let Err(desc) = engine::no_panic(|| (d.run)(&ctx)) {
                    ctx.inconclusive(format!("{}: panic outside a case: {}", d.name, desc));
                }
            }
            let code = ctx.finish();
            std::process::exit(if regress_fail { 1 } else { code });
        }
    }
}
