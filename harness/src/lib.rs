//! zkverif — property-based testing / fuzzing harness for libzkchannels-crypto (library part:
//! engine, protocol model and the per-property checks; the binary `zkverif` is the driver, the
//! cargo-fuzz targets under /verif/fuzz link against this library).
#[macro_use]
pub mod engine;
pub mod model;
#[macro_use]
pub mod props;
