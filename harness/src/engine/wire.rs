//! Wire schema by tracing: a serde `Serializer` that records the tree serde walks over a value
//! together with the byte offset every leaf has in the bincode (fix-int, little-endian) image.
//! Nothing about any type's layout is hard-coded; field names come from the derive output.

use bls12_381::{G1Affine, G2Affine, Scalar};
use serde::ser::{self, Serialize};
use std::fmt;
use std::sync::OnceLock;

#[derive(Clone, Copy, Debug, PartialEq, Eq, Hash)]
pub enum Kind {
    G1,
    G2,
    B32,
    U64,
    I64,
    U8,
    Tag,
    Len(u64),
    Bool,
}

#[derive(Clone, Debug)]
pub struct Atom {
    /// Dotted path of field names / indexes from the root, e.g. `pk.y1s.2`.
    pub path: String,
    /// Innermost enclosing named type (struct or newtype struct).
    pub ty: String,
    /// Innermost enclosing field name ("" at the root of a newtype).
    pub field: String,
    pub kind: Kind,
    pub off: usize,
    pub len: usize,
}

#[derive(Debug)]
pub struct TraceError(pub String);
impl fmt::Display for TraceError {
    fn fmt(&self, f: &mut fmt::Formatter) -> fmt::Result {
        write!(f, "{}", self.0)
    }
}
impl std::error::Error for TraceError {}
impl ser::Error for TraceError {
    fn custom<T: fmt::Display>(msg: T) -> Self {
        TraceError(msg.to_string())
    }
}

#[derive(Default)]
pub struct Tracer {
    pub atoms: Vec<Atom>,
    off: usize,
    path: Vec<String>,
    tys: Vec<String>,
    fields: Vec<String>,
    collapse: Option<(usize, usize)>,
}

impl Tracer {
    fn leaf(&mut self, kind: Kind, len: usize) -> Result<(), TraceError> {
        if self.collapse.is_some() {
            if kind == Kind::U8 {
                self.off += 1;
                return Ok(());
            }
            return Err(TraceError("non-byte inside a 32/48/96-byte tuple".into()));
        }
        self.atoms.push(Atom {
            path: self.path.join("."),
            ty: self.tys.last().cloned().unwrap_or_default(),
            field: self.fields.last().cloned().unwrap_or_default(),
            kind,
            off: self.off,
            len,
        });
        self.off += len;
        Ok(())
    }
}

pub struct Compound<'a> {
    t: &'a mut Tracer,
    idx: usize,
    collapsing: Option<usize>,
    pushed_ty: bool,
}

type Res = Result<(), TraceError>;

impl<'a> ser::Serializer for &'a mut Tracer {
    type Ok = ();
    type Error = TraceError;
    type SerializeSeq = Compound<'a>;
    type SerializeTuple = Compound<'a>;
    type SerializeTupleStruct = Compound<'a>;
    type SerializeTupleVariant = Compound<'a>;
    type SerializeMap = Compound<'a>;
    type SerializeStruct = Compound<'a>;
    type SerializeStructVariant = Compound<'a>;

    fn serialize_bool(self, _v: bool) -> Res {
        self.leaf(Kind::Bool, 1)
    }
    fn serialize_i8(self, _v: i8) -> Res {
        self.leaf(Kind::U8, 1)
    }
    fn serialize_i16(self, _v: i16) -> Res {
        Err(TraceError("i16 unsupported".into()))
    }
    fn serialize_i32(self, _v: i32) -> Res {
        Err(TraceError("i32 unsupported".into()))
    }
    fn serialize_i64(self, _v: i64) -> Res {
        self.leaf(Kind::I64, 8)
    }
    fn serialize_u8(self, _v: u8) -> Res {
        self.leaf(Kind::U8, 1)
    }
    fn serialize_u16(self, _v: u16) -> Res {
        Err(TraceError("u16 unsupported".into()))
    }
    fn serialize_u32(self, _v: u32) -> Res {
        Err(TraceError("u32 unsupported".into()))
    }
    fn serialize_u64(self, _v: u64) -> Res {
        self.leaf(Kind::U64, 8)
    }
    fn serialize_f32(self, _v: f32) -> Res {
        Err(TraceError("f32 unsupported".into()))
    }
    fn serialize_f64(self, _v: f64) -> Res {
        Err(TraceError("f64 unsupported".into()))
    }
    fn serialize_char(self, _v: char) -> Res {
        Err(TraceError("char unsupported".into()))
    }
    fn serialize_str(self, _v: &str) -> Res {
        Err(TraceError("str unsupported".into()))
    }
    fn serialize_bytes(self, _v: &[u8]) -> Res {
        Err(TraceError("bytes unsupported".into()))
    }
    fn serialize_none(self) -> Res {
        self.leaf(Kind::Bool, 1)
    }
    fn serialize_some<T: ?Sized + Serialize>(self, v: &T) -> Res {
        self.leaf(Kind::Bool, 1)?;
        v.serialize(self)
    }
    fn serialize_unit(self) -> Res {
        Ok(())
    }
    fn serialize_unit_struct(self, _n: &'static str) -> Res {
        Ok(())
    }
    fn serialize_unit_variant(self, _n: &'static str, _i: u32, _v: &'static str) -> Res {
        self.leaf(Kind::Tag, 4)
    }
    fn serialize_newtype_struct<T: ?Sized + Serialize>(self, name: &'static str, v: &T) -> Res {
        self.tys.push(name.to_string());
        self.fields.push(String::new());
        let r = v.serialize(&mut *self);
        self.fields.pop();
        self.tys.pop();
        r
    }
    fn serialize_newtype_variant<T: ?Sized + Serialize>(
        self,
        name: &'static str,
        _i: u32,
        variant: &'static str,
        v: &T,
    ) -> Res {
        self.leaf(Kind::Tag, 4)?;
        self.tys.push(format!("{}::{}", name, variant));
        self.fields.push(String::new());
        let r = v.serialize(&mut *self);
        self.fields.pop();
        self.tys.pop();
        r
    }
    fn serialize_seq(self, len: Option<usize>) -> Result<Compound<'a>, TraceError> {
        let n = len.ok_or_else(|| TraceError("seq without length".into()))?;
        self.leaf(Kind::Len(n as u64), 8)?;
        Ok(Compound {
            t: self,
            idx: 0,
            collapsing: None,
            pushed_ty: false,
        })
    }
    fn serialize_tuple(self, len: usize) -> Result<Compound<'a>, TraceError> {
        let mut collapsing = None;
        if len == 32 || len == 48 || len == 96 {
            if self.collapse.is_some() {
                return Err(TraceError("nested byte tuple".into()));
            }
            self.collapse = Some((self.off, len));
            collapsing = Some(len);
        }
        Ok(Compound {
            t: self,
            idx: 0,
            collapsing,
            pushed_ty: false,
        })
    }
    fn serialize_tuple_struct(
        self,
        name: &'static str,
        _len: usize,
    ) -> Result<Compound<'a>, TraceError> {
        self.tys.push(name.to_string());
        Ok(Compound {
            t: self,
            idx: 0,
            collapsing: None,
            pushed_ty: true,
        })
    }
    fn serialize_tuple_variant(
        self,
        name: &'static str,
        _i: u32,
        variant: &'static str,
        _len: usize,
    ) -> Result<Compound<'a>, TraceError> {
        self.leaf(Kind::Tag, 4)?;
        self.tys.push(format!("{}::{}", name, variant));
        Ok(Compound {
            t: self,
            idx: 0,
            collapsing: None,
            pushed_ty: true,
        })
    }
    fn serialize_map(self, _len: Option<usize>) -> Result<Compound<'a>, TraceError> {
        Err(TraceError("map unsupported".into()))
    }
    fn serialize_struct(
        self,
        name: &'static str,
        _len: usize,
    ) -> Result<Compound<'a>, TraceError> {
        self.tys.push(name.to_string());
        Ok(Compound {
            t: self,
            idx: 0,
            collapsing: None,
            pushed_ty: true,
        })
    }
    fn serialize_struct_variant(
        self,
        name: &'static str,
        _i: u32,
        variant: &'static str,
        _len: usize,
    ) -> Result<Compound<'a>, TraceError> {
        self.leaf(Kind::Tag, 4)?;
        self.tys.push(format!("{}::{}", name, variant));
        Ok(Compound {
            t: self,
            idx: 0,
            collapsing: None,
            pushed_ty: true,
        })
    }
}

impl<'a> Compound<'a> {
    fn elem<T: ?Sized + Serialize>(&mut self, v: &T) -> Res {
        if self.collapsing.is_some() {
            return v.serialize(&mut *self.t);
        }
        self.t.path.push(self.idx.to_string());
        self.idx += 1;
        let r = v.serialize(&mut *self.t);
        self.t.path.pop();
        r
    }
    fn field<T: ?Sized + Serialize>(&mut self, key: &'static str, v: &T) -> Res {
        self.t.path.push(key.to_string());
        self.t.fields.push(key.to_string());
        let r = v.serialize(&mut *self.t);
        self.t.fields.pop();
        self.t.path.pop();
        r
    }
    fn finish(self) -> Res {
        if let Some(len) = self.collapsing {
            let (start, _) = self.t.collapse.take().unwrap();
            if self.t.off - start != len {
                return Err(TraceError("byte tuple length mismatch".into()));
            }
            self.t.off = start;
            let kind = match len {
                32 => Kind::B32,
                48 => Kind::G1,
                _ => Kind::G2,
            };
            self.t.leaf(kind, len)?;
        }
        if self.pushed_ty {
            self.t.tys.pop();
        }
        Ok(())
    }
}

impl<'a> ser::SerializeSeq for Compound<'a> {
    type Ok = ();
    type Error = TraceError;
    fn serialize_element<T: ?Sized + Serialize>(&mut self, v: &T) -> Res {
        self.elem(v)
    }
    fn end(self) -> Res {
        self.finish()
    }
}
impl<'a> ser::SerializeTuple for Compound<'a> {
    type Ok = ();
    type Error = TraceError;
    fn serialize_element<T: ?Sized + Serialize>(&mut self, v: &T) -> Res {
        self.elem(v)
    }
    fn end(self) -> Res {
        self.finish()
    }
}
impl<'a> ser::SerializeTupleStruct for Compound<'a> {
    type Ok = ();
    type Error = TraceError;
    fn serialize_field<T: ?Sized + Serialize>(&mut self, v: &T) -> Res {
        self.elem(v)
    }
    fn end(self) -> Res {
        self.finish()
    }
}
impl<'a> ser::SerializeTupleVariant for Compound<'a> {
    type Ok = ();
    type Error = TraceError;
    fn serialize_field<T: ?Sized + Serialize>(&mut self, v: &T) -> Res {
        self.elem(v)
    }
    fn end(self) -> Res {
        self.finish()
    }
}
impl<'a> ser::SerializeMap for Compound<'a> {
    type Ok = ();
    type Error = TraceError;
    fn serialize_key<T: ?Sized + Serialize>(&mut self, _k: &T) -> Res {
        Err(TraceError("map unsupported".into()))
    }
    fn serialize_value<T: ?Sized + Serialize>(&mut self, _v: &T) -> Res {
        Err(TraceError("map unsupported".into()))
    }
    fn end(self) -> Res {
        Ok(())
    }
}
impl<'a> ser::SerializeStruct for Compound<'a> {
    type Ok = ();
    type Error = TraceError;
    fn serialize_field<T: ?Sized + Serialize>(&mut self, key: &'static str, v: &T) -> Res {
        self.field(key, v)
    }
    fn end(self) -> Res {
        self.finish()
    }
}
impl<'a> ser::SerializeStructVariant for Compound<'a> {
    type Ok = ();
    type Error = TraceError;
    fn serialize_field<T: ?Sized + Serialize>(&mut self, key: &'static str, v: &T) -> Res {
        self.field(key, v)
    }
    fn end(self) -> Res {
        self.finish()
    }
}

/// A bincode image together with its traced atoms.
#[derive(Clone, Debug)]
pub struct Image {
    pub bytes: Vec<u8>,
    pub atoms: Vec<Atom>,
}

#[derive(Debug)]
pub struct Drift(pub String);

impl Image {
    /// Encode and trace a value; checks that the traced layout tiles the bincode image exactly.
    pub fn of<T: Serialize>(v: &T) -> Result<Image, Drift> {
        let bytes = bincode::serialize(v).map_err(|e| Drift(format!("bincode: {}", e)))?;
        let mut t = Tracer::default();
        v.serialize(&mut t).map_err(|e| Drift(format!("trace: {}", e)))?;
        if t.off != bytes.len() {
            return Err(Drift(format!(
                "traced length {} != bincode length {}",
                t.off,
                bytes.len()
            )));
        }
        let mut pos = 0;
        for a in &t.atoms {
            if a.off != pos {
                return Err(Drift("atoms do not tile the image".into()));
            }
            pos += a.len;
            if let Kind::Len(n) = a.kind {
                let got = u64::from_le_bytes(bytes[a.off..a.off + 8].try_into().unwrap());
                if got != n {
                    return Err(Drift("length prefix mismatch".into()));
                }
            }
        }
        Ok(Image {
            bytes,
            atoms: t.atoms,
        })
    }

    pub fn must<T: Serialize>(v: &T) -> Image {
        match Image::of(v) {
            Ok(i) => i,
            Err(d) => panic!("schema-drift: {}", d.0),
        }
    }

    pub fn find(&self, path: &str) -> Option<&Atom> {
        self.atoms.iter().find(|a| a.path == path)
    }

    pub fn idx(&self, path: &str) -> usize {
        self.atoms
            .iter()
            .position(|a| a.path == path)
            .unwrap_or_else(|| panic!("schema-drift: no atom '{}'", path))
    }

    pub fn get(&self, path: &str) -> &[u8] {
        let a = &self.atoms[self.idx(path)];
        &self.bytes[a.off..a.off + a.len]
    }

    pub fn at(&self, i: usize) -> &[u8] {
        let a = &self.atoms[i];
        &self.bytes[a.off..a.off + a.len]
    }

    /// Replace the bytes of atom `i` (same length).
    pub fn set_at(&mut self, i: usize, b: &[u8]) {
        let a = &self.atoms[i];
        assert_eq!(a.len, b.len(), "atom size mismatch");
        self.bytes[a.off..a.off + a.len].copy_from_slice(b);
    }

    pub fn set(&mut self, path: &str, b: &[u8]) {
        let i = self.idx(path);
        self.set_at(i, b);
    }

    pub fn with(&self, path: &str, b: &[u8]) -> Vec<u8> {
        let mut c = self.clone();
        c.set(path, b);
        c.bytes
    }

    pub fn with_at(&self, i: usize, b: &[u8]) -> Vec<u8> {
        let mut c = self.clone();
        c.set_at(i, b);
        c.bytes
    }

    pub fn scalar(&self, path: &str) -> Scalar {
        sc(self.get(path)).unwrap_or_else(|| panic!("schema-drift: '{}' is not a scalar", path))
    }
    pub fn g1(&self, path: &str) -> G1Affine {
        g1(self.get(path)).unwrap_or_else(|| panic!("schema-drift: '{}' is not a G1 point", path))
    }
    pub fn g2(&self, path: &str) -> G2Affine {
        g2(self.get(path)).unwrap_or_else(|| panic!("schema-drift: '{}' is not a G2 point", path))
    }
    /// All atoms whose path starts with `prefix.` followed by an index, in order.
    pub fn list(&self, prefix: &str) -> Vec<usize> {
        let p = format!("{}.", prefix);
        (0..self.atoms.len())
            .filter(|&i| {
                self.atoms[i].path.starts_with(&p)
                    && self.atoms[i].path[p.len()..].chars().all(|c| c.is_ascii_digit())
            })
            .collect()
    }
    pub fn scalars(&self, prefix: &str) -> Vec<Scalar> {
        self.list(prefix)
            .into_iter()
            .map(|i| sc(self.at(i)).expect("scalar"))
            .collect()
    }
    pub fn g1s(&self, prefix: &str) -> Vec<G1Affine> {
        self.list(prefix)
            .into_iter()
            .map(|i| g1(self.at(i)).expect("g1"))
            .collect()
    }
    pub fn g2s(&self, prefix: &str) -> Vec<G2Affine> {
        self.list(prefix)
            .into_iter()
            .map(|i| g2(self.at(i)).expect("g2"))
            .collect()
    }
}

pub fn sc(b: &[u8]) -> Option<Scalar> {
    let a: [u8; 32] = b.try_into().ok()?;
    Scalar::from_bytes(&a).into()
}
pub fn g1(b: &[u8]) -> Option<G1Affine> {
    let a: [u8; 48] = b.try_into().ok()?;
    G1Affine::from_compressed(&a).into()
}
pub fn g2(b: &[u8]) -> Option<G2Affine> {
    let a: [u8; 96] = b.try_into().ok()?;
    G2Affine::from_compressed(&a).into()
}

pub fn dec<T: serde::de::DeserializeOwned>(b: &[u8]) -> Result<T, String> {
    bincode::deserialize::<T>(b).map_err(|e| e.to_string())
}

pub fn enc<T: Serialize>(v: &T) -> Vec<u8> {
    bincode::serialize(v).expect("bincode serialize")
}

/// One entry of the invalid / boundary encoding table.
#[derive(Clone, Debug)]
pub struct BadEnc {
    pub label: &'static str,
    pub bytes: Vec<u8>,
    /// Whether the bytes are a valid encoding of the atom *kind* (canonical scalar / valid point).
    pub kind_valid: bool,
}

const P_BE: [u8; 48] = [
    0x1a, 0x01, 0x11, 0xea, 0x39, 0x7f, 0xe6, 0x9a, 0x4b, 0x1b, 0xa7, 0xb6, 0x43, 0x4b, 0xac, 0xd7,
    0x64, 0x77, 0x4b, 0x84, 0xf3, 0x85, 0x12, 0xbf, 0x67, 0x30, 0xd2, 0xa0, 0xf6, 0xb0, 0xf6, 0x24,
    0x1e, 0xab, 0xff, 0xfe, 0xb1, 0x53, 0xff, 0xff, 0xb9, 0xfe, 0xff, 0xff, 0xff, 0xff, 0xaa, 0xab,
];

pub const Q_LE: [u8; 32] = [
    0x01, 0x00, 0x00, 0x00, 0xff, 0xff, 0xff, 0xff, 0xfe, 0x5b, 0xfe, 0xff, 0x02, 0xa4, 0xbd, 0x53,
    0x05, 0xd8, 0xa1, 0x09, 0x08, 0xd8, 0x39, 0x33, 0x48, 0x7d, 0x9d, 0x29, 0x53, 0xa7, 0xed, 0x73,
];

fn g1_search() -> (Vec<u8>, Vec<u8>) {
    // (x not on curve, on-curve point outside the prime-order subgroup)
    let mut off_curve = None;
    let mut off_group = None;
    let mut ctr: u64 = 1;
    while off_curve.is_none() || off_group.is_none() {
        let mut b = [0u8; 48];
        b[40..48].copy_from_slice(&ctr.to_be_bytes());
        b[0] = 0x80;
        let p: Option<G1Affine> = G1Affine::from_compressed_unchecked(&b).into();
        match p {
            None => {
                if off_curve.is_none() {
                    off_curve = Some(b.to_vec());
                }
            }
            Some(p) => {
                if !bool::from(p.is_torsion_free()) && off_group.is_none() {
                    off_group = Some(b.to_vec());
                }
            }
        }
        ctr += 1;
    }
    (off_curve.unwrap(), off_group.unwrap())
}

fn g2_search() -> (Vec<u8>, Vec<u8>) {
    let mut off_curve = None;
    let mut off_group = None;
    let mut ctr: u64 = 1;
    while off_curve.is_none() || off_group.is_none() {
        let mut b = [0u8; 96];
        b[88..96].copy_from_slice(&ctr.to_be_bytes());
        b[0] = 0x80;
        let p: Option<G2Affine> = G2Affine::from_compressed_unchecked(&b).into();
        match p {
            None => {
                if off_curve.is_none() {
                    off_curve = Some(b.to_vec());
                }
            }
            Some(p) => {
                if !bool::from(p.is_torsion_free()) && off_group.is_none() {
                    off_group = Some(b.to_vec());
                }
            }
        }
        ctr += 1;
    }
    (off_curve.unwrap(), off_group.unwrap())
}

pub fn close_scalar_bytes() -> [u8; 32] {
    zkabacus_crypto::CLOSE_SCALAR.to_bytes()
}

/// Invalid and boundary encodings for an atom kind.
pub fn bad_table(kind: Kind) -> &'static [BadEnc] {
    static G1T: OnceLock<Vec<BadEnc>> = OnceLock::new();
    static G2T: OnceLock<Vec<BadEnc>> = OnceLock::new();
    static SCT: OnceLock<Vec<BadEnc>> = OnceLock::new();
    static U64T: OnceLock<Vec<BadEnc>> = OnceLock::new();
    static I64T: OnceLock<Vec<BadEnc>> = OnceLock::new();
    static EMPTY: Vec<BadEnc> = Vec::new();
    match kind {
        Kind::G1 => G1T.get_or_init(|| {
            let (oc, og) = g1_search();
            let mut ident = vec![0u8; 48];
            ident[0] = 0xc0;
            let mut xp = P_BE.to_vec();
            xp[0] |= 0x80;
            let gen = G1Affine::generator().to_compressed().to_vec();
            let mut noflag = gen.clone();
            noflag[0] &= 0x7f;
            let mut inf_nonzero = gen.clone();
            inf_nonzero[0] |= 0x40;
            let mut inf_sort = ident.clone();
            inf_sort[0] |= 0x20;
            vec![
                BadEnc { label: "identity", bytes: ident, kind_valid: true },
                BadEnc { label: "x>=p", bytes: xp, kind_valid: false },
                BadEnc { label: "x-not-on-curve", bytes: oc, kind_valid: false },
                BadEnc { label: "not-in-subgroup", bytes: og, kind_valid: false },
                BadEnc { label: "compression-flag-unset", bytes: noflag, kind_valid: false },
                BadEnc { label: "infinity-flag-with-x", bytes: inf_nonzero, kind_valid: false },
                BadEnc { label: "infinity-with-sort-flag", bytes: inf_sort, kind_valid: false },
                BadEnc { label: "all-ff", bytes: vec![0xff; 48], kind_valid: false },
                BadEnc { label: "all-zero", bytes: vec![0x00; 48], kind_valid: false },
            ]
        }),
        Kind::G2 => G2T.get_or_init(|| {
            let (oc, og) = g2_search();
            let mut ident = vec![0u8; 96];
            ident[0] = 0xc0;
            let mut xp = vec![0u8; 96];
            xp[..48].copy_from_slice(&P_BE);
            xp[0] |= 0x80;
            let mut xp2 = vec![0u8; 96];
            xp2[48..].copy_from_slice(&P_BE);
            xp2[0] |= 0x80;
            let gen = G2Affine::generator().to_compressed().to_vec();
            let mut noflag = gen.clone();
            noflag[0] &= 0x7f;
            let mut inf_nonzero = gen.clone();
            inf_nonzero[0] |= 0x40;
            let mut inf_sort = ident.clone();
            inf_sort[0] |= 0x20;
            vec![
                BadEnc { label: "identity", bytes: ident, kind_valid: true },
                BadEnc { label: "x.c1>=p", bytes: xp, kind_valid: false },
                BadEnc { label: "x.c0>=p", bytes: xp2, kind_valid: false },
                BadEnc { label: "x-not-on-curve", bytes: oc, kind_valid: false },
                BadEnc { label: "not-in-subgroup", bytes: og, kind_valid: false },
                BadEnc { label: "compression-flag-unset", bytes: noflag, kind_valid: false },
                BadEnc { label: "infinity-flag-with-x", bytes: inf_nonzero, kind_valid: false },
                BadEnc { label: "infinity-with-sort-flag", bytes: inf_sort, kind_valid: false },
                BadEnc { label: "all-ff", bytes: vec![0xff; 96], kind_valid: false },
                BadEnc { label: "all-zero", bytes: vec![0x00; 96], kind_valid: false },
            ]
        }),
        Kind::B32 => SCT.get_or_init(|| {
            let mut q1 = Q_LE;
            q1[0] = 0x02;
            let mut qm1 = Q_LE;
            qm1[0] = 0x00;
            let mut one = [0u8; 32];
            one[0] = 1;
            vec![
                BadEnc { label: "q", bytes: Q_LE.to_vec(), kind_valid: false },
                BadEnc { label: "q+1", bytes: q1.to_vec(), kind_valid: false },
                BadEnc { label: "2^256-1", bytes: vec![0xff; 32], kind_valid: false },
                BadEnc { label: "zero", bytes: vec![0; 32], kind_valid: true },
                BadEnc { label: "one", bytes: one.to_vec(), kind_valid: true },
                BadEnc { label: "q-1", bytes: qm1.to_vec(), kind_valid: true },
                BadEnc { label: "close-tag", bytes: close_scalar_bytes().to_vec(), kind_valid: true },
            ]
        }),
        Kind::U64 => U64T.get_or_init(|| {
            let v = |x: u64, l: &'static str| BadEnc { label: l, bytes: x.to_le_bytes().to_vec(), kind_valid: true };
            vec![
                v(0, "0"),
                v((1 << 63) - 1, "2^63-1"),
                v(1 << 63, "2^63"),
                v((1 << 63) + 1, "2^63+1"),
                v(u64::MAX, "2^64-1"),
            ]
        }),
        Kind::I64 => I64T.get_or_init(|| {
            let v = |x: i64, l: &'static str| BadEnc { label: l, bytes: x.to_le_bytes().to_vec(), kind_valid: true };
            vec![
                v(0, "0"),
                v(i64::MAX, "i64::MAX"),
                v(i64::MIN, "i64::MIN"),
                v(i64::MIN + 1, "i64::MIN+1"),
                v(-1, "-1"),
            ]
        }),
        _ => &EMPTY,
    }
}

/// Is `b` a valid encoding for the atom kind (canonical scalar, valid compressed subgroup point)?
pub fn kind_valid(kind: Kind, b: &[u8]) -> bool {
    match kind {
        Kind::G1 => g1(b).is_some(),
        Kind::G2 => g2(b).is_some(),
        Kind::B32 => sc(b).is_some(),
        _ => true,
    }
}

pub fn is_identity_enc(kind: Kind, b: &[u8]) -> bool {
    match kind {
        Kind::G1 => g1(b).map(|p| bool::from(p.is_identity())).unwrap_or(false),
        Kind::G2 => g2(b).map(|p| bool::from(p.is_identity())).unwrap_or(false),
        _ => false,
    }
}
