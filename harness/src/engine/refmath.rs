//! Reference evaluators written only against `bls12_381` / `group` / `sha3`.
//! They never call the crates under test.

use super::wire::Image;
use bls12_381::{pairing, G1Affine, G1Projective, G2Affine, G2Projective, Scalar};
use group::{Curve, Group};
use serde::Serialize;
use sha3::{Digest, Sha3_256};

/// Pedersen map by explicit accumulation: h·r + Σ gᵢ·mᵢ.
pub fn pedersen<G: Group<Scalar = Scalar>>(h: &G, gs: &[G], m: &[Scalar], r: &Scalar) -> G {
    assert_eq!(gs.len(), m.len());
    let mut acc = *h * *r;
    for i in 0..gs.len() {
        acc = acc + gs[i] * m[i];
    }
    acc
}

/// Schnorr relation: h·z_bf + Σ gᵢ·zᵢ == T + c·C.
pub fn schnorr<G: Group<Scalar = Scalar>>(
    h: &G,
    gs: &[G],
    c_point: &G,
    t_point: &G,
    zbf: &Scalar,
    z: &[Scalar],
    c: &Scalar,
) -> bool {
    pedersen(h, gs, z, zbf) == *t_point + *c_point * *c
}

#[derive(Clone, Debug)]
pub struct PkAtoms {
    pub g1: G1Affine,
    pub y1s: Vec<G1Affine>,
    pub g2: G2Affine,
    pub x2: G2Affine,
    pub y2s: Vec<G2Affine>,
}

impl PkAtoms {
    /// Read the elements of a public key from its encoding (`prefix` = "" for a bare key,
    /// "pk" inside a key pair, ...).
    pub fn from_image(img: &Image, prefix: &str) -> PkAtoms {
        let p = |f: &str| {
            if prefix.is_empty() {
                f.to_string()
            } else {
                format!("{}.{}", prefix, f)
            }
        };
        PkAtoms {
            g1: img.g1(&p("g1")),
            y1s: img.g1s(&p("y1s")),
            g2: img.g2(&p("g2")),
            x2: img.g2(&p("x2")),
            y2s: img.g2s(&p("y2s")),
        }
    }
    pub fn of<T: Serialize>(pk: &T) -> PkAtoms {
        PkAtoms::from_image(&Image::must(pk), "")
    }
    pub fn n(&self) -> usize {
        self.y1s.len()
    }
    pub fn g1_params(&self) -> (G1Projective, Vec<G1Projective>) {
        (self.g1.into(), self.y1s.iter().map(|y| y.into()).collect())
    }
    pub fn g2_params(&self) -> (G2Projective, Vec<G2Projective>) {
        (self.g2.into(), self.y2s.iter().map(|y| y.into()).collect())
    }
}

#[derive(Clone, Debug)]
pub struct SkAtoms {
    pub x: Scalar,
    pub ys: Vec<Scalar>,
    pub x1: G1Affine,
}

impl SkAtoms {
    pub fn from_image(img: &Image, prefix: &str) -> SkAtoms {
        let p = |f: &str| {
            if prefix.is_empty() {
                f.to_string()
            } else {
                format!("{}.{}", prefix, f)
            }
        };
        SkAtoms {
            x: img.scalar(&p("x")),
            ys: img.scalars(&p("ys")),
            x1: img.g1(&p("x1")),
        }
    }
}

/// The Pointcheval–Sanders relation with two full pairings:
/// σ1 ≠ 𝟙 ∧ e(σ1, X̃ + Σ mᵢ·Ỹᵢ) = e(σ2, g̃).
/// Both elements must lie in the prime-order group G1 (a curve point outside it pairs to 1 with
/// everything and is no signature).
pub fn ps_verify(pk: &PkAtoms, m: &[Scalar], s1: &G1Affine, s2: &G1Affine) -> bool {
    if bool::from(s1.is_identity()) || !bool::from(s1.is_torsion_free()) || !bool::from(s2.is_torsion_free()) {
        return false;
    }
    assert_eq!(pk.y2s.len(), m.len());
    let mut acc: G2Projective = pk.x2.into();
    for i in 0..m.len() {
        acc += G2Projective::from(pk.y2s[i]) * m[i];
    }
    pairing(s1, &acc.to_affine()) == pairing(s2, &pk.g2)
}

/// Signature-proof relation: Schnorr over (g̃, Ỹ) ∧ σ1' ≠ 𝟙 ∧ e(σ1', X̃ + C) = e(σ2', g̃).
#[allow(clippy::too_many_arguments)]
pub fn sigproof(
    pk: &PkAtoms,
    s1: &G1Affine,
    s2: &G1Affine,
    c_point: &G2Affine,
    t_point: &G2Affine,
    zbf: &Scalar,
    z: &[Scalar],
    c: &Scalar,
) -> bool {
    let (h, gs) = pk.g2_params();
    let sch = schnorr(
        &h,
        &gs,
        &G2Projective::from(*c_point),
        &G2Projective::from(*t_point),
        zbf,
        z,
        c,
    );
    let wf = !bool::from(s1.is_identity()) && bool::from(s1.is_torsion_free()) && bool::from(s2.is_torsion_free());
    let lhs: G2Projective = G2Projective::from(pk.x2) + G2Projective::from(*c_point);
    let link = pairing(s1, &lhs.to_affine()) == pairing(s2, &pk.g2);
    sch && wf && link
}

pub fn sha3(parts: &[&[u8]]) -> [u8; 32] {
    let mut h = Sha3_256::new();
    for p in parts {
        h.update(p);
    }
    let mut out = [0u8; 32];
    out.copy_from_slice(h.finalize().as_ref());
    out
}

/// Reduce 32 little-endian bytes to a scalar (what `Scalar::from_raw` computes).
pub fn scalar_from_le_reduce(b: &[u8; 32]) -> Scalar {
    let mut wide = [0u8; 64];
    wide[..32].copy_from_slice(b);
    Scalar::from_bytes_wide(&wide)
}

/// Fiat–Shamir challenge as documented: SHA3-256 of the consumed bytes, reduced to a scalar.
pub fn challenge_of(transcript: &[u8]) -> Scalar {
    scalar_from_le_reduce(&sha3(&[transcript]))
}

pub fn u64_scalar(v: u64) -> Scalar {
    // independent of `From<u64>`: build from little-endian bytes
    let mut b = [0u8; 32];
    b[..8].copy_from_slice(&v.to_le_bytes());
    Scalar::from_bytes(&b).unwrap()
}

/// Integer (possibly negative, |v| < 2^127) to its residue mod q.
pub fn i128_scalar(v: i128) -> Scalar {
    let mag = v.unsigned_abs();
    let mut b = [0u8; 32];
    b[..16].copy_from_slice(&mag.to_le_bytes());
    let s = Scalar::from_bytes(&b).unwrap();
    if v < 0 {
        -s
    } else {
        s
    }
}

pub fn g1p(b: &G1Projective) -> [u8; 48] {
    b.to_affine().to_compressed()
}
pub fn g2p(b: &G2Projective) -> [u8; 96] {
    b.to_affine().to_compressed()
}
