//! Runner, evidence, replay and known-findings machinery shared by every property check.
//!
//! A *check* is a named pair (generator, oracle). Generators are proptest strategies (sharded,
//! seeded from VERIF_SEED) or explicit enumerations of a finite sub-domain. The oracle is a plain
//! function `fn(&Case, &Rec) -> Result<(), Fail>`; the same function is used by the replay path,
//! which bypasses proptest entirely.

pub mod alloc;
pub mod refmath;
pub mod rng;
pub mod wire;

use proptest::strategy::Strategy;
use proptest::test_runner::{Config, RngAlgorithm, TestCaseError, TestError, TestRng, TestRunner};
use serde::{de::DeserializeOwned, Serialize};
use serde_json::{json, Value};
use sha3::{Digest, Sha3_256};
use std::cell::{Cell, RefCell};
use std::collections::{BTreeMap, HashSet};
use std::fmt::Debug;
use std::hash::{Hash, Hasher};
use std::panic::{catch_unwind, AssertUnwindSafe};
use std::path::PathBuf;
use std::sync::Mutex;
use std::time::Instant;

pub const SHARDS: usize = 16;
const SAMPLES_PER_CLASS: usize = 2;
const MAX_SAMPLES: usize = 24;

#[derive(Clone, Copy, PartialEq, Eq, Debug)]
pub enum Tier {
    Quick,
    Thorough,
}

impl Tier {
    pub fn name(self) -> &'static str {
        match self {
            Tier::Quick => "quick",
            Tier::Thorough => "thorough",
        }
    }
    pub fn pick<T>(self, quick: T, thorough: T) -> T {
        match self {
            Tier::Quick => quick,
            Tier::Thorough => thorough,
        }
    }
}

/// A property violation found by an oracle.
#[derive(Clone, Debug)]
pub struct Fail {
    /// Root-cause signature (stable across inputs that share the cause).
    pub sig: String,
    pub msg: String,
    pub observed: String,
    pub expected: String,
}

impl Fail {
    pub fn new(sig: impl Into<String>, msg: impl Into<String>) -> Self {
        Fail {
            sig: sig.into(),
            msg: msg.into(),
            observed: String::new(),
            expected: String::new(),
        }
    }
    pub fn obs(mut self, observed: impl Into<String>, expected: impl Into<String>) -> Self {
        self.observed = observed.into();
        self.expected = expected.into();
        self
    }
}

pub type R = Result<(), Fail>;

/// `ensure!(cond, sig, fmt...)` — return a `Fail` unless the condition holds.
#[macro_export]
macro_rules! ensure {
    ($cond:expr, $sig:expr, $($arg:tt)*) => {
        if !($cond) {
            return Err($crate::engine::Fail::new($sig, format!($($arg)*)));
        }
    };
}

#[derive(Default)]
pub struct Stats {
    pub evals: u64,
    pub cases: u64,
    pub classes: BTreeMap<String, u64>,
    pub nontrivial: HashSet<u64>,
    pub samples: BTreeMap<String, Vec<Value>>,
    pub known_hits: BTreeMap<String, u64>,
    pub excluded: u64,
    pub notes: BTreeMap<String, u64>,
}

impl Stats {
    fn merge(&mut self, o: Stats) {
        self.evals += o.evals;
        self.cases += o.cases;
        self.excluded += o.excluded;
        for (k, v) in o.classes {
            *self.classes.entry(k).or_default() += v;
        }
        for (k, v) in o.notes {
            *self.notes.entry(k).or_default() += v;
        }
        for (k, v) in o.known_hits {
            *self.known_hits.entry(k).or_default() += v;
        }
        self.nontrivial.extend(o.nontrivial);
        for (k, v) in o.samples {
            let e = self.samples.entry(k).or_default();
            for s in v {
                if e.len() < SAMPLES_PER_CLASS {
                    e.push(s);
                }
            }
        }
    }
}

/// Per-shard recorder handed to oracles.
pub struct Rec {
    pub tier: Tier,
    pub seed: u64,
    st: RefCell<Stats>,
    frozen: Cell<bool>,
}

impl Rec {
    pub fn new(tier: Tier, seed: u64) -> Self {
        Rec {
            tier,
            seed,
            st: RefCell::new(Stats::default()),
            frozen: Cell::new(false),
        }
    }
    fn live(&self) -> bool {
        !self.frozen.get()
    }
    /// Count `n` oracle evaluations.
    pub fn eval(&self, n: u64) {
        if self.live() {
            self.st.borrow_mut().evals += n;
        }
    }
    /// Add one to the histogram bucket `label`.
    pub fn class(&self, label: &str) {
        if self.live() {
            *self.st.borrow_mut().classes.entry(label.to_string()).or_default() += 1;
        }
    }
    /// Statistic that is reported but is not a case class.
    pub fn note(&self, label: &str, n: u64) {
        if self.live() {
            *self.st.borrow_mut().notes.entry(label.to_string()).or_default() += n;
        }
    }
    /// Record that a case was non-trivial; `fp` identifies it for distinctness.
    pub fn nontrivial<H: Hash>(&self, fp: H) {
        if self.live() {
            let mut h = std::collections::hash_map::DefaultHasher::new();
            fp.hash(&mut h);
            self.st.borrow_mut().nontrivial.insert(h.finish());
        }
    }
    /// Keep a written-out sample for class `label` (first few per class).
    pub fn sample(&self, label: &str, v: impl FnOnce() -> Value) {
        if self.live() {
            let mut st = self.st.borrow_mut();
            let e = st.samples.entry(label.to_string()).or_default();
            if e.len() < SAMPLES_PER_CLASS {
                e.push(v());
            }
        }
    }
    pub fn excluded(&self, n: u64) {
        if self.live() {
            self.st.borrow_mut().excluded += n;
        }
    }
    fn known_hit(&self, sig: &str) {
        *self.st.borrow_mut().known_hits.entry(sig.to_string()).or_default() += 1;
    }
    fn take(self) -> Stats {
        self.st.into_inner()
    }
}

#[derive(Clone, Debug)]
pub struct Violation {
    pub check: String,
    pub fail: Fail,
    pub case: Value,
    pub shard: usize,
}

pub struct Known {
    pub open: Vec<(String, String, String)>, // (property, signature, text)
}

impl Known {
    pub fn load(path: &std::path::Path) -> Known {
        let mut open = Vec::new();
        if let Ok(s) = std::fs::read_to_string(path) {
            for line in s.lines() {
                let line = line.trim();
                if let Some(rest) = line.strip_prefix("open:") {
                    let (head, text) = match rest.split_once("::") {
                        Some((h, t)) => (h, t.trim().to_string()),
                        None => (rest, String::new()),
                    };
                    let mut prop = String::new();
                    let mut sig = String::new();
                    for tok in head.split_whitespace() {
                        if let Some(v) = tok.strip_prefix("property=") {
                            prop = v.to_string();
                        }
                        if let Some(v) = tok.strip_prefix("signature=") {
                            sig = v.to_string();
                        }
                    }
                    if !prop.is_empty() && !sig.is_empty() {
                        open.push((prop, sig, text));
                    }
                }
            }
        }
        Known { open }
    }
    pub fn is_open(&self, prop: &str, sig: &str) -> Option<&str> {
        self.open
            .iter()
            .find(|(p, s, _)| p == prop && s == sig)
            .map(|(_, _, t)| t.as_str())
    }
}

pub struct CheckSummary {
    pub name: String,
    pub kind: &'static str,
    pub exhaustive: bool,
    pub rule: String,
    pub stats: Stats,
    pub required: Vec<String>,
}

pub struct Ctx {
    pub prop: String,
    pub tier: Tier,
    pub seed: u64,
    pub verif_dir: PathBuf,
    pub out_dir: PathBuf,
    pub known: Known,
    pub start: Instant,
    pub summaries: Mutex<Vec<CheckSummary>>,
    pub violations: Mutex<Vec<Violation>>,
    pub inconclusive: Mutex<Vec<String>>,
    pub assumptions: Mutex<Vec<String>>,
    pub strict_replay: bool,
}

pub fn seed_bytes(seed: u64, prop: &str, check: &str, shard: usize) -> [u8; 32] {
    let mut h = Sha3_256::new();
    h.update(seed.to_le_bytes());
    h.update(prop.as_bytes());
    h.update([0u8]);
    h.update(check.as_bytes());
    h.update([0u8]);
    h.update((shard as u64).to_le_bytes());
    let mut out = [0u8; 32];
    out.copy_from_slice(h.finalize().as_ref());
    out
}

thread_local! {
    static LAST_PANIC: RefCell<Option<String>> = RefCell::new(None);
}

pub fn install_panic_hook() {
    std::panic::set_hook(Box::new(|info| {
        let loc = info
            .location()
            .map(|l| format!("{}:{}", l.file(), l.line()))
            .unwrap_or_else(|| "?".into());
        let msg = if let Some(s) = info.payload().downcast_ref::<&str>() {
            s.to_string()
        } else if let Some(s) = info.payload().downcast_ref::<String>() {
            s.clone()
        } else {
            "<non-string panic>".to_string()
        };
        LAST_PANIC.with(|p| *p.borrow_mut() = Some(format!("{} @ {}", msg, loc)));
    }));
}

/// Run `f`, turning a panic into `Err(description)`.
pub fn no_panic<T>(f: impl FnOnce() -> T) -> Result<T, String> {
    LAST_PANIC.with(|p| *p.borrow_mut() = None);
    match catch_unwind(AssertUnwindSafe(f)) {
        Ok(v) => Ok(v),
        Err(_) => Err(LAST_PANIC
            .with(|p| p.borrow_mut().take())
            .unwrap_or_else(|| "panic".into())),
    }
}

/// Shorten a panic description to something stable enough for a signature.
pub fn panic_sig(desc: &str) -> String {
    let (msg, loc) = desc.rsplit_once(" @ ").unwrap_or((desc, "?"));
    let file = loc.rsplit('/').next().unwrap_or(loc);
    let file = file.split(':').next().unwrap_or(file);
    let short: String = msg
        .chars()
        .map(|c| if c.is_ascii_digit() { '#' } else { c })
        .take(60)
        .collect();
    format!("{}/{}", file, short.replace(' ', "_"))
}

/// Properties whose statement implies that the exercised library calls return (a value or an
/// error) on every generated case: a panic raised inside the library there is a violation.
const TOTALITY_PROPS: [&str; 10] = ["C03", "C04", "C05", "C10", "C13", "C14", "C16", "C17", "C19", "C20"];

fn call<C>(f: &(dyn Fn(&C, &Rec) -> R + Sync), c: &C, rec: &Rec) -> R {
    match no_panic(|| f(c, rec)) {
        Ok(r) => r,
        Err(desc) => {
            // where was the panic raised? library sources live under .../zk*-crypto/src/
            let in_library = desc.rsplit(" @ ").next().map(|loc| loc.contains("-crypto/src/")).unwrap_or(false);
            Err(Fail::new(
                format!("{}/{}", if in_library { "library-panic" } else { "harness-panic" }, panic_sig(&desc)),
                format!("panic while evaluating the case: {}", desc),
            ))
        }
    }
}

impl Ctx {
    /// Evaluate one case; a panic raised inside the library becomes a violation of this property
    /// when its statement implies totality of the exercised calls, and INCONCLUSIVE otherwise.
    fn call_in<C>(&self, f: &(dyn Fn(&C, &Rec) -> R + Sync), c: &C, rec: &Rec) -> R {
        call(f, c, rec).map_err(|mut fl| {
            if let Some(rest) = fl.sig.strip_prefix("library-panic/") {
                fl.sig = if TOTALITY_PROPS.contains(&self.prop.as_str()) {
                    format!("{}/library-panic/{}", self.prop, rest)
                } else {
                    format!("harness-panic/in-library/{}", rest)
                };
            }
            fl
        })
    }

    pub fn assume(&self, s: &str) {
        let mut a = self.assumptions.lock().unwrap();
        if !a.iter().any(|x| x == s) {
            a.push(s.to_string());
        }
    }

    pub fn inconclusive(&self, s: impl Into<String>) {
        self.inconclusive.lock().unwrap().push(s.into());
    }

    fn handle_fail(&self, rec: &Rec, fail: &Fail) -> bool {
        // returns true if the failure is suppressed: a listed known finding, or a harness-side
        // inability to build the scenario (reported as INCONCLUSIVE, never as a violation)
        if fail.sig.starts_with("harness/") || fail.sig.starts_with("harness-panic/") {
            let mut inc = self.inconclusive.lock().unwrap();
            let line = format!("{}: {}", fail.sig, fail.msg);
            if inc.len() < 20 && !inc.iter().any(|l| l.starts_with(&fail.sig)) {
                inc.push(line);
            }
            return true;
        }
        if self.known.is_open(&self.prop, &fail.sig).is_some() {
            rec.known_hit(&fail.sig);
            true
        } else {
            false
        }
    }

    /// Sharded proptest run of one check.
    pub fn run_prop<C, S>(
        &self,
        name: &'static str,
        rule: &str,
        required: &[&str],
        total_cases: u32,
        make_strategy: &(dyn Fn() -> S + Sync),
        f: &(dyn Fn(&C, &Rec) -> R + Sync),
    ) where
        S: Strategy<Value = C>,
        C: Debug + Clone + Serialize,
    {
        let per_shard = (total_cases as usize + SHARDS - 1) / SHARDS;
        let results: Vec<(Stats, Vec<Violation>)> = std::thread::scope(|scope| {
            let handles: Vec<_> = (0..SHARDS)
                .map(|shard| {
                    scope.spawn(move || {
                        let rec = Rec::new(self.tier, self.seed);
                        let cfg = Config {
                            cases: per_shard as u32,
                            failure_persistence: None,
                            max_shrink_iters: self.tier.pick(48, 192),
                            max_local_rejects: 1 << 16,
                            max_global_rejects: 1 << 16,
                            ..Config::default()
                        };
                        let rng = TestRng::from_seed(
                            RngAlgorithm::ChaCha,
                            &seed_bytes(self.seed, &self.prop, name, shard),
                        );
                        let mut runner = TestRunner::new_with_rng(cfg, rng);
                        let strategy = make_strategy();
                        let res = runner.run(&strategy, |c| {
                            if rec.live() {
                                rec.st.borrow_mut().cases += 1;
                            }
                            match self.call_in(f, &c, &rec) {
                                Ok(()) => Ok(()),
                                Err(fail) => {
                                    if self.handle_fail(&rec, &fail) {
                                        Ok(())
                                    } else {
                                        rec.frozen.set(true);
                                        Err(TestCaseError::fail(fail.sig.clone()))
                                    }
                                }
                            }
                        });
                        let viol = match res {
                            Ok(()) => None,
                            Err(TestError::Fail(_, value)) => {
                                rec.frozen.set(true);
                                let fail = match self.call_in(f, &value, &rec) {
                                    Err(fl) => fl,
                                    Ok(()) => Fail::new(
                                        "non-reproducible",
                                        "shrunk case passed when re-evaluated",
                                    ),
                                };
                                Some(Violation {
                                    check: name.to_string(),
                                    fail,
                                    case: serde_json::to_value(&value).unwrap_or(Value::Null),
                                    shard,
                                })
                            }
                            Err(TestError::Abort(reason)) => {
                                self.inconclusive(format!(
                                    "{}: proptest aborted: {}",
                                    name, reason
                                ));
                                None
                            }
                        };
                        (rec.take(), viol.into_iter().collect())
                    })
                })
                .collect();
            handles.into_iter().map(|h| h.join().unwrap()).collect()
        });
        self.collect(name, "generated", false, rule, required, results);
    }

    /// Exhaustive run over an explicitly enumerated finite domain.
    pub fn run_enum<C>(
        &self,
        name: &'static str,
        rule: &str,
        required: &[&str],
        exhaustive: bool,
        cases: Vec<C>,
        f: &(dyn Fn(&C, &Rec) -> R + Sync),
    ) where
        C: Debug + Clone + Serialize + Sync,
    {
        let cases = &cases;
        let results: Vec<(Stats, Vec<Violation>)> = std::thread::scope(|scope| {
            let handles: Vec<_> = (0..SHARDS)
                .map(|shard| {
                    scope.spawn(move || {
                        let rec = Rec::new(self.tier, self.seed);
                        let mut viols: Vec<Violation> = Vec::new();
                        for (i, c) in cases.iter().enumerate() {
                            if i % SHARDS != shard {
                                continue;
                            }
                            rec.st.borrow_mut().cases += 1;
                            if let Err(fail) = self.call_in(f, c, &rec) {
                                // an enumeration is run to the end; one case is kept per
                                // distinct root-cause signature
                                if !self.handle_fail(&rec, &fail) && viols.len() < 12 && !viols.iter().any(|v| v.fail.sig == fail.sig) {
                                    viols.push(Violation {
                                        check: name.to_string(),
                                        fail,
                                        case: serde_json::to_value(c).unwrap_or(Value::Null),
                                        shard,
                                    });
                                }
                            }
                        }
                        (rec.take(), viols)
                    })
                })
                .collect();
            handles.into_iter().map(|h| h.join().unwrap()).collect()
        });
        self.collect(name, "enumerated", exhaustive, rule, required, results);
    }

    fn collect(
        &self,
        name: &str,
        kind: &'static str,
        exhaustive: bool,
        rule: &str,
        required: &[&str],
        results: Vec<(Stats, Vec<Violation>)>,
    ) {
        let mut stats = Stats::default();
        let mut seen_sigs = HashSet::new();
        for (st, vs) in results {
            stats.merge(st);
            for v in vs {
                if seen_sigs.insert(v.fail.sig.clone()) {
                    self.violations.lock().unwrap().push(v);
                }
            }
        }
        self.summaries.lock().unwrap().push(CheckSummary {
            name: name.to_string(),
            kind,
            exhaustive,
            rule: rule.to_string(),
            stats,
            required: required.iter().map(|s| s.to_string()).collect(),
        });
    }

    /// Replay one stored case through an oracle (no proptest involved).
    pub fn replay_one<C: DeserializeOwned>(
        &self,
        case: &Value,
        f: &(dyn Fn(&C, &Rec) -> R + Sync),
    ) -> R {
        let c: C = serde_json::from_value(case.clone())
            .map_err(|e| Fail::new("replay/undecodable-case", e.to_string()))?;
        let rec = Rec::new(self.tier, self.seed);
        self.call_in(f, &c, &rec)
    }

    fn write_replay(&self, v: &Violation) -> PathBuf {
        let dir = self.out_dir.join("replays");
        let _ = std::fs::create_dir_all(&dir);
        let mut h = std::collections::hash_map::DefaultHasher::new();
        v.fail.sig.hash(&mut h);
        v.case.to_string().hash(&mut h);
        let path = dir.join(format!("{}-{}-{:016x}.json", self.prop, v.check, h.finish()));
        let body = json!({
            "property": self.prop,
            "check": v.check,
            "tier": self.tier.name(),
            "seed": self.seed,
            "shard": v.shard,
            "signature": v.fail.sig,
            "message": v.fail.msg,
            "observed": v.fail.observed,
            "expected": v.fail.expected,
            "case": v.case,
        });
        let _ = std::fs::write(&path, serde_json::to_string_pretty(&body).unwrap());
        path
    }

    /// Write evidence, print result lines, return the process exit code.
    pub fn finish(&self) -> i32 {
        let wall = self.start.elapsed().as_secs_f64();
        let summaries = self.summaries.lock().unwrap();
        let violations = self.violations.lock().unwrap();
        let mut inconclusive = self.inconclusive.lock().unwrap().clone();

        let mut evaluations = 0u64;
        let mut distinct = 0u64;
        let mut samples: Vec<Value> = Vec::new();
        let mut per_check = serde_json::Map::new();
        let mut classes_all: BTreeMap<String, u64> = BTreeMap::new();
        let mut known_hits: BTreeMap<String, u64> = BTreeMap::new();
        let mut rules = Vec::new();
        let mut all_exhaustive = !summaries.is_empty();
        for s in summaries.iter() {
            evaluations += s.stats.evals;
            distinct += s.stats.nontrivial.len() as u64;
            all_exhaustive &= s.exhaustive;
            rules.push(format!("[{}] {}", s.name, s.rule));
            for (k, v) in &s.stats.classes {
                *classes_all.entry(format!("{}/{}", s.name, k)).or_default() += v;
            }
            for (k, v) in &s.stats.known_hits {
                *known_hits.entry(k.clone()).or_default() += v;
            }
            for (label, vs) in &s.stats.samples {
                for v in vs {
                    if samples.len() < MAX_SAMPLES {
                        samples.push(json!({"check": s.name, "class": label, "case": v}));
                    }
                }
            }
            for r in &s.required {
                if s.stats.classes.get(r).copied().unwrap_or(0) == 0 {
                    inconclusive.push(format!(
                        "{}: required class '{}' was never generated (vacuous run)",
                        s.name, r
                    ));
                }
            }
            per_check.insert(
                s.name.clone(),
                json!({
                    "kind": s.kind,
                    "exhaustive": s.exhaustive,
                    "cases": s.stats.cases,
                    "evaluations": s.stats.evals,
                    "distinct_nontrivial": s.stats.nontrivial.len(),
                    "classes": s.stats.classes,
                    "notes": s.stats.notes,
                    "excluded_known": s.stats.excluded,
                }),
            );
        }

        let mut replay_paths = Vec::new();
        for v in violations.iter() {
            replay_paths.push((v, self.write_replay(v)));
        }

        let evidence = json!({
            "property_id": self.prop,
            "tier": self.tier.name(),
            "seed": self.seed,
            "level": "exploration",
            "coverage": {
                "evaluations": evaluations,
                "distinct_nontrivial": distinct,
                "rule": rules.join(" || "),
                "samples": samples,
                "exhaustive": all_exhaustive,
                "classes": classes_all,
                "checks": per_check,
            },
            "assumptions": *self.assumptions.lock().unwrap(),
            "wall_s": wall,
            "violations": violations.len(),
            "known_findings_hit": known_hits,
            "inconclusive": inconclusive,
        });
        let ev_dir = self.out_dir.join("evidence");
        let _ = std::fs::create_dir_all(&ev_dir);
        let ev_path = ev_dir.join(format!("{}.json", self.prop));
        if let Err(e) = std::fs::write(&ev_path, serde_json::to_string_pretty(&evidence).unwrap()) {
            println!("INCONCLUSIVE property={} cannot write evidence: {}", self.prop, e);
            return 2;
        }

        for (sig, n) in &known_hits {
            let text = self.known.is_open(&self.prop, sig).unwrap_or("");
            println!(
                "KNOWN-FINDING: property={} signature={} hits={} {}",
                self.prop, sig, n, text
            );
        }
        for (v, path) in &replay_paths {
            println!(
                "VIOLATION property={} replay={}",
                self.prop,
                path.display()
            );
            println!(
                "  check={} signature={}\n  {}\n  observed: {}\n  expected: {}",
                v.check, v.fail.sig, v.fail.msg, v.fail.observed, v.fail.expected
            );
        }
        if !violations.is_empty() {
            return 1;
        }
        if !inconclusive.is_empty() {
            for m in &inconclusive {
                println!("INCONCLUSIVE property={} {}", self.prop, m);
            }
            return 2;
        }
        println!(
            "OK property={} tier={} seed={} evaluations={} distinct_nontrivial={} wall_s={:.1}",
            self.prop,
            self.tier.name(),
            self.seed,
            evaluations,
            distinct,
            wall
        );
        0
    }
}

/// A registered check: how to run it in a tier and how to replay one stored case.
pub struct CheckDef {
    pub name: &'static str,
    pub run: Box<dyn Fn(&Ctx) + Sync + Send>,
    pub replay: Box<dyn Fn(&Ctx, &Value) -> R + Sync + Send>,
}

/// Define a generated (proptest) check.
pub fn prop_check<C, S>(
    name: &'static str,
    rule: &'static str,
    required: &'static [&'static str],
    cases: (u32, u32),
    strategy: fn(Tier) -> S,
    f: fn(&C, &Rec) -> R,
) -> CheckDef
where
    S: Strategy<Value = C> + 'static,
    C: Debug + Clone + Serialize + DeserializeOwned + 'static,
{
    CheckDef {
        name,
        run: Box::new(move |ctx: &Ctx| {
            let n = ctx.tier.pick(cases.0, cases.1);
            let tier = ctx.tier;
            ctx.run_prop(name, rule, required, n, &move || strategy(tier), &f);
        }),
        replay: Box::new(move |ctx: &Ctx, v: &Value| ctx.replay_one::<C>(v, &f)),
    }
}

/// Define an enumerated check.
pub fn enum_check<C>(
    name: &'static str,
    rule: &'static str,
    required: &'static [&'static str],
    exhaustive: bool,
    gen: fn(&Ctx) -> Vec<C>,
    f: fn(&C, &Rec) -> R,
) -> CheckDef
where
    C: Debug + Clone + Serialize + DeserializeOwned + Sync + 'static,
{
    CheckDef {
        name,
        run: Box::new(move |ctx: &Ctx| {
            let cases = gen(ctx);
            ctx.run_enum(name, rule, required, exhaustive, cases, &f);
        }),
        replay: Box::new(move |ctx: &Ctx, v: &Value| ctx.replay_one::<C>(v, &f)),
    }
}

/// Monotone index mapping for selectors (keeps proptest shrinking moving toward index 0).
pub fn pick_idx(sel: u16, len: usize) -> usize {
    if len == 0 {
        0
    } else {
        ((sel as usize) * len) >> 16
    }
}

pub fn hex(b: &[u8]) -> String {
    b.iter().map(|x| format!("{:02x}", x)).collect()
}

pub fn unhex(s: &str) -> Vec<u8> {
    (0..s.len() / 2)
        .map(|i| u8::from_str_radix(&s[2 * i..2 * i + 2], 16).unwrap_or(0))
        .collect()
}
