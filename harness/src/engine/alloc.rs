//! Tracking allocator: records the largest single request and the total requested while armed,
//! and refuses (returns null for) requests above a hard cap so that an absurd request aborts the
//! *worker* deterministically instead of depending on overcommit.

use std::alloc::{GlobalAlloc, Layout, System};
use std::sync::atomic::{AtomicBool, AtomicUsize, Ordering};

pub struct Track;

static ARMED: AtomicBool = AtomicBool::new(false);
static MAX_REQ: AtomicUsize = AtomicUsize::new(0);
static TOTAL: AtomicUsize = AtomicUsize::new(0);
pub const HARD_CAP: usize = 4 << 30;

unsafe impl GlobalAlloc for Track {
    unsafe fn alloc(&self, layout: Layout) -> *mut u8 {
        if ARMED.load(Ordering::Relaxed) {
            MAX_REQ.fetch_max(layout.size(), Ordering::Relaxed);
            TOTAL.fetch_add(layout.size(), Ordering::Relaxed);
            if layout.size() > HARD_CAP {
                return std::ptr::null_mut();
            }
        }
        System.alloc(layout)
    }
    unsafe fn dealloc(&self, ptr: *mut u8, layout: Layout) {
        System.dealloc(ptr, layout)
    }
    unsafe fn realloc(&self, ptr: *mut u8, layout: Layout, new_size: usize) -> *mut u8 {
        if ARMED.load(Ordering::Relaxed) {
            MAX_REQ.fetch_max(new_size, Ordering::Relaxed);
            TOTAL.fetch_add(new_size.saturating_sub(layout.size()), Ordering::Relaxed);
            if new_size > HARD_CAP {
                return std::ptr::null_mut();
            }
        }
        System.realloc(ptr, layout, new_size)
    }
}

pub fn arm() {
    MAX_REQ.store(0, Ordering::Relaxed);
    TOTAL.store(0, Ordering::Relaxed);
    ARMED.store(true, Ordering::Relaxed);
}

/// Returns (largest single request, total requested) since `arm`.
pub fn disarm() -> (usize, usize) {
    ARMED.store(false, Ordering::Relaxed);
    (MAX_REQ.load(Ordering::Relaxed), TOTAL.load(Ordering::Relaxed))
}
