//! Scripted random-number generator: a ChaCha base stream with overlay windows (all-zero or a
//! chosen byte pattern) aligned to recorded draws. Used as a fault injector for retry loops whose
//! natural probability is ~2^-255.

use rand_chacha::ChaCha20Rng;
use rand_core::{CryptoRng, RngCore, SeedableRng};

#[derive(Clone, Debug)]
pub enum Pattern {
    Zero,
    Bytes(Vec<u8>),
}

#[derive(Clone, Debug)]
pub struct Window {
    pub off: usize,
    pub len: usize,
    pub pat: Pattern,
}

pub struct ScriptedRng {
    base: ChaCha20Rng,
    pos: usize,
    pub windows: Vec<Window>,
    /// (offset, length) of every draw.
    pub log: Vec<(usize, usize)>,
    /// number of draws that were fully covered by a window
    pub covered: usize,
    limit: usize,
}

impl ScriptedRng {
    pub fn new(seed: u64, windows: Vec<Window>) -> Self {
        ScriptedRng {
            base: ChaCha20Rng::seed_from_u64(seed),
            pos: 0,
            windows,
            log: Vec::new(),
            covered: 0,
            limit: 1 << 28,
        }
    }
}

impl RngCore for ScriptedRng {
    fn next_u32(&mut self) -> u32 {
        let mut b = [0u8; 4];
        self.fill_bytes(&mut b);
        u32::from_le_bytes(b)
    }
    fn next_u64(&mut self) -> u64 {
        let mut b = [0u8; 8];
        self.fill_bytes(&mut b);
        u64::from_le_bytes(b)
    }
    fn fill_bytes(&mut self, dest: &mut [u8]) {
        assert!(self.pos < self.limit, "scripted rng: stream limit exceeded (non-terminating loop?)");
        self.base.fill_bytes(dest);
        let start = self.pos;
        let end = start + dest.len();
        let mut fully = false;
        for w in &self.windows {
            let ws = w.off;
            let we = w.off + w.len;
            if ws < end && start < we {
                let a = ws.max(start);
                let b = we.min(end);
                for p in a..b {
                    dest[p - start] = match &w.pat {
                        Pattern::Zero => 0,
                        Pattern::Bytes(v) => v[(p - ws) % v.len()],
                    };
                }
                if ws <= start && end <= we {
                    fully = true;
                }
            }
        }
        if fully {
            self.covered += 1;
        }
        self.log.push((start, dest.len()));
        self.pos = end;
    }
    fn try_fill_bytes(&mut self, dest: &mut [u8]) -> Result<(), rand_core::Error> {
        self.fill_bytes(dest);
        Ok(())
    }
}

impl CryptoRng for ScriptedRng {}

pub fn chacha(seed: u64) -> ChaCha20Rng {
    ChaCha20Rng::seed_from_u64(seed)
}
